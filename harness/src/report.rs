//! Violation records and run reports shared by all harness subcommands.
use serde_json::{json, Value as J};
use std::collections::BTreeMap;

#[derive(Default)]
pub struct Report {
    pub counters: BTreeMap<String, u64>,
    pub violations: Vec<J>,
    pub violation_total: u64,
    pub samples: Vec<J>,
    pub extra: BTreeMap<String, J>,
    /// how to re-run the case being processed: {"sub": subcommand, "args": [...], "row": TLC row payload}
    pub ctx: Option<J>,
}

pub const MAX_KEPT: usize = 400;

impl Report {
    pub fn count(&mut self, key: &str) {
        *self.counters.entry(key.to_string()).or_insert(0) += 1;
    }
    pub fn add(&mut self, key: &str, n: u64) {
        *self.counters.entry(key.to_string()).or_insert(0) += n;
    }
    /// property: "C12"; class: stable machine name of what failed; features: small
    /// structured description used to match known findings; replay: everything
    /// needed to reproduce (inputs as bytes, expected, observed).
    pub fn violation(&mut self, property: &str, class: &str, features: J, replay: J) {
        self.violation_total += 1;
        self.count(&format!("violations_{}", property));
        if self.violations.len() < MAX_KEPT {
            let mut v = json!({"property": property, "class": class, "features": features, "replay": replay});
            if let Some(c) = &self.ctx {
                v["rerun"] = c.clone();
            }
            self.violations.push(v);
        }
    }
    /// Keep a thin, spread-out selection of the cases seen (every 997th, up to 12).
    pub fn sample(&mut self, s: J) {
        let n = self.counters.get("samples_offered").copied().unwrap_or(0);
        self.add("samples_offered", 1);
        if n % 997 == 17 % 997 && self.samples.len() < 12 {
            self.samples.push(s);
        } else if self.samples.is_empty() && n == 3 {
            self.samples.push(s);
        }
    }
    pub fn merge(&mut self, other: Report) {
        for (k, v) in other.counters {
            *self.counters.entry(k).or_insert(0) += v;
        }
        self.violation_total += other.violation_total;
        for v in other.violations {
            if self.violations.len() < MAX_KEPT {
                self.violations.push(v);
            }
        }
        for s in other.samples {
            if self.samples.len() < 12 {
                self.samples.push(s);
            }
        }
    }

    pub fn to_json(&self) -> J {
        json!({
            "counters": self.counters,
            "violation_total": self.violation_total,
            "violations": self.violations,
            "samples": self.samples,
            "extra": self.extra,
        })
    }
}
