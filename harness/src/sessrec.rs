//! Implementation -> spec: drivers that run the real interpreter and write
//! ndjson traces for Trace_Session.tla.
use crate::progs::Gen;
use crate::session::*;
use rand::rngs::StdRng;
use rand::{Rng, SeedableRng};
use serde_json::{json, Value as J};
use std::io::Write;

pub struct Rec {
    pub f: std::io::BufWriter<std::fs::File>,
    pub events: u64,
    /// model-free monitors (C01, C04, C09, C16) evaluated on every event any driver records
    pub monitor_hits: Vec<J>,
}

impl Rec {
    pub fn new(path: &str) -> Self {
        Rec { f: std::io::BufWriter::new(std::fs::File::create(path).expect("create trace")), events: 0, monitor_hits: vec![] }
    }
    pub fn write(&mut self, ev: &J) {
        // TLC's JSON reader rejects null: drop null-valued keys
        fn strip(j: &J) -> J {
            match j {
                J::Object(o) => J::Object(o.iter().filter(|(_, v)| !v.is_null()).map(|(k, v)| (k.clone(), strip(v))).collect()),
                J::Array(a) => J::Array(a.iter().map(strip).collect()),
                other => other.clone(),
            }
        }
        let ev = &strip(ev);
        writeln!(self.f, "{}", ev).unwrap();
        self.events += 1;
    }
    /// hand the monitor hits over to the report
    pub fn finish(&mut self, rep: &mut Report) {
        rep.add("events_recorded", self.events);
        for h in self.monitor_hits.drain(..) {
            rep.violation(h["property"].as_str().unwrap_or(""), h["class"].as_str().unwrap_or(""), h["features"].clone(), h["replay"].clone());
        }
    }
    pub fn reset(&mut self, run: u64, trace: bool, warn: bool, meta: J) -> Sess {
        self.write(&json!({"run": run, "c": call_reset(trace, warn), "dom": true, "panic": false,
            "res": {"ok": true, "kind": "", "hl": false, "line": [], "tok": 0}, "out": [], "snap": {}, "edit": {"some": false, "k": [], "toks": []}, "meta": meta}));
        Sess::new(trace, warn)
    }
    pub fn call(&mut self, run: u64, s: &mut Sess, c: J) -> J {
        let mut ev = s.apply(&c);
        ev["run"] = json!(run);
        for (prop, class, feat) in crate::sessrows::monitors(&ev) {
            if self.monitor_hits.len() < 200 {
                self.monitor_hits.push(json!({"property": prop, "class": class, "features": feat,
                    "replay": {"run": run, "call": crate::sessrows::call_text(&ev["c"]), "event_index": self.events, "event": ev}}));
            }
        }
        self.write(&ev);
        ev
    }
}

/// Enter a program, RUN it, and keep the turn-taking protocol going until the
/// interpreter is idle (or the budget is used up, then break).
pub fn run_program(rec: &mut Rec, run: u64, s: &mut Sess, lines: &[String], replies: &mut dyn FnMut() -> String, budget: usize) {
    for l in lines {
        if s.dead { return; }
        rec.call(run, s, call_submit(l));
    }
    if s.dead || s.mode() != "idle" { return; }
    rec.call(run, s, call_submit("RUN"));
    drain(rec, run, s, replies, budget);
}

pub fn drain(rec: &mut Rec, run: u64, s: &mut Sess, replies: &mut dyn FnMut() -> String, budget: usize) {
    let mut n = 0;
    while !s.dead {
        match s.mode() {
            "running" => {
                if n >= budget {
                    rec.call(run, s, call_simple("break"));
                    return;
                }
                rec.call(run, s, call_simple("continue"));
            }
            "awaiting" => {
                if n >= budget {
                    rec.call(run, s, call_simple("break"));
                    return;
                }
                let r = replies();
                rec.call(run, s, call_provide(&r));
            }
            _ => return,
        }
        n += 1;
    }
}

pub fn reply_pool(rng: &mut StdRng) -> String {
    // now and then a reply longer than any line buffer of old (255 / 256 characters)
    if rng.gen_bool(0.04) {
        return match rng.gen_range(0..4) {
            0 => "Z".repeat(300),
            1 => format!("{}7", " ".repeat(280)),
            2 => format!("\"{}\", 8", "y".repeat(270)),
            _ => format!("{}:9", "4".repeat(260)),
        };
    }
    let xs = ["5", " 7 ", "abc", "", "\"q\"", "1,2", "1:2", "x,y", "007", "2.5", "-3", "0"];
    xs[rng.gen_range(0..xs.len())].to_string()
}

/// `progs`: generated structured programs, run to completion.
pub fn record_programs(seed: u64, n: usize, out: &str, with_input: bool, trace: bool, warn: bool, breaks: bool, rep: &mut Report) {
    let mut rec = Rec::new(out);
    for i in 0..n {
        let mut rng = StdRng::seed_from_u64(seed.wrapping_mul(1_000_003).wrapping_add(i as u64));
        let lines = {
            let mut g = Gen::new(&mut rng);
            g.with_input = with_input;
            g.program()
        };
        let mut s = rec.reset(i as u64, trace, warn, json!({"driver": "progs", "program": lines}));
        let mut rng2 = StdRng::seed_from_u64(seed ^ (i as u64) << 20);
        let mut replies = || reply_pool(&mut rng2);
        if breaks {
            // the host also breaks in between statements (anywhere in a line) and resumes with CONT:
            // each of those calls, too, executes at most one statement
            for l in &lines {
                if s.dead { break; }
                rec.call(i as u64, &mut s, call_submit(l));
            }
            if !s.dead && s.mode() == "idle" {
                rec.call(i as u64, &mut s, call_submit("RUN"));
                let mut rng3 = StdRng::seed_from_u64(seed ^ 0xB4EA ^ (i as u64) << 16);
                let mut n = 0;
                while !s.dead && n < 1500 {
                    match s.mode() {
                        "running" | "awaiting" if rng3.gen_bool(0.12) => {
                            rec.call(i as u64, &mut s, call_simple("break"));
                            if !s.dead { rec.call(i as u64, &mut s, call_submit("CONT")); }
                        }
                        "running" => { rec.call(i as u64, &mut s, call_simple("continue")); }
                        "awaiting" => { let r = replies(); rec.call(i as u64, &mut s, call_provide(&r)); }
                        _ => break,
                    }
                    n += 1;
                }
                if !s.dead && s.mode() != "idle" { rec.call(i as u64, &mut s, call_simple("break")); }
            }
        } else {
            run_program(&mut rec, i as u64, &mut s, &lines, &mut replies, 1500);
        }
        rep.count("programs");
        rep.sample(json!({"program": lines}));
    }
    rec.finish(rep);
}

// ---------------------------------------------------------------------------
// Differential drivers: two (or more) runs of the REAL interpreter compared with
// each other (the monitors M_P of DESIGN.md §3.4).  Every run is also written to
// the trace, so TLC validates each of them against the model.

use crate::report::Report;

/// What a program run shows to its user: printed text, REENTER / EXTRA IGNORED
/// notices, input requests and the final outcome -- BREAK notices excluded.
#[derive(Default, Clone, PartialEq, Debug)]
pub struct Transcript {
    pub items: Vec<String>,
}

impl Transcript {
    pub fn absorb(&mut self, ev: &J) {
        if ev["panic"] == true {
            self.items.push(format!("PANIC {}", ev["panic_msg"]));
            return;
        }
        for o in ev["out"].as_array().into_iter().flatten() {
            match o["t"].as_str().unwrap_or("") {
                "print" => self.items.push(format!("P:{}", crate::model::text_of(&o["text"]))),
                "reenter" => self.items.push("REENTER".to_string()),
                "extra" => self.items.push("EXTRA".to_string()),
                _ => {}
            }
        }
        if ev["res"]["ok"] == false {
            self.items.push(format!("ERR:{}@{}", ev["res"]["kind"].as_str().unwrap_or(""), crate::model::text_of(&ev["res"]["line"])));
        }
        // an input request counts when it is answered (a request interrupted by a host
        // break is simply issued again after CONT)
        if ev["c"]["k"] == "provide" {
            self.items.push(format!("INPUT<-{}", crate::model::text_of(&ev["c"]["text"])));
        }
    }
}

fn state_digest(ev: &J) -> J {
    json!({"vars": ev["snap"]["vars"], "arrays": ev["snap"]["arrays"], "mode": ev["snap"]["mode"]})
}

pub struct RunCfg<'a> {
    pub lines: &'a [String],
    pub replies: &'a [String],
    pub trace: bool,
    pub warn: bool,
    /// probability of a host break at each turn boundary (0 = never)
    pub break_p: f64,
    pub inspections: &'a [&'a str],
    pub budget: usize,
    pub seed: Option<u64>,
}

/// Load and RUN a program under the turn-taking protocol; at every STOP the host
/// types CONT; with break_p > 0 the host also breaks in, inspects and continues.
/// Returns (transcript, final event).
pub fn run_scheduled(rec: &mut Rec, run: u64, cfg: &RunCfg, rng: &mut StdRng, meta: J) -> (Transcript, J) {
    let mut s = rec.reset(run, cfg.trace, cfg.warn, meta);
    let mut t = Transcript::default();
    let mut last = json!({});
    if let Some(seed) = cfg.seed {
        rec.call(run, &mut s, call_randomize(seed));
    }
    for l in cfg.lines {
        last = rec.call(run, &mut s, call_submit(l));
        if s.dead {
            t.absorb(&last);
            return (t, last);
        }
    }
    last = rec.call(run, &mut s, call_submit("RUN"));
    t.absorb(&last);
    let mut reply_i = 0;
    let mut steps = 0;
    let mut conts = 0;
    loop {
        if s.dead {
            break;
        }
        steps += 1;
        if steps > cfg.budget {
            if s.mode() != "idle" {
                rec.call(run, &mut s, call_simple("break"));
            }
            t.items.push("BUDGET".to_string());
            break;
        }
        let mode = s.mode();
        // a host break at this turn boundary?
        if (mode == "running" || mode == "awaiting") && cfg.break_p > 0.0 && rng.gen_bool(cfg.break_p) {
            rec.call(run, &mut s, call_simple("break"));
            let n = rng.gen_range(0..=2);
            for _ in 0..n {
                if cfg.inspections.is_empty() || s.dead {
                    break;
                }
                let ins = cfg.inspections[rng.gen_range(0..cfg.inspections.len())];
                // reading an array (or calling an undefined function, which is an array read) creates
                // it: only inspect arrays and functions that exist, so the inspection assigns nothing
                let snap = abasic_core::verif::snapshot(&s.interp);
                let exists = |name: &str| snap.arrays.iter().any(|a| a.name == name) || snap.functions.iter().any(|f| f.name == name);
                let needed: Vec<&str> = ["P(", "Q(", "R$(", "FNA(", "FNB(", "FNE("].iter().filter(|n| ins.contains(**n)).map(|n| n.trim_end_matches('(')).collect();
                if !needed.iter().all(|n| exists(n)) {
                    continue;
                }
                rec.call(run, &mut s, call_submit(ins));
                // an inspection is one statement; if it is still running (multi-statement), finish it
                let mut guard = 0;
                while !s.dead && s.mode() == "running" && guard < 50 {
                    rec.call(run, &mut s, call_simple("continue"));
                    guard += 1;
                }
            }
            if s.dead {
                break;
            }
            last = rec.call(run, &mut s, call_submit("CONT"));
            t.absorb(&last);
            continue;
        }
        match mode {
            "running" => {
                last = rec.call(run, &mut s, call_simple("continue"));
                t.absorb(&last);
            }
            "awaiting" => {
                let r = cfg.replies.get(reply_i).cloned().unwrap_or_else(|| "1".to_string());
                reply_i += 1;
                last = rec.call(run, &mut s, call_provide(&r));
                t.absorb(&last);
            }
            "idle" => {
                // stopped at a STOP statement (breakpoint pending, no error): the host continues
                let stopped = last["res"]["ok"] == true && last["snap"]["bp"]["some"] == true
                    && last["out"].as_array().map(|o| o.iter().any(|x| x["t"] == "break")).unwrap_or(false);
                if stopped && conts < 20 {
                    conts += 1;
                    last = rec.call(run, &mut s, call_submit("CONT"));
                    t.absorb(&last);
                } else {
                    break;
                }
            }
            _ => break,
        }
    }
    (t, last)
}

fn gen_program(seed: u64, i: u64, with_input: bool, with_stop: bool, fail_rate: f64) -> Vec<String> {
    let mut rng = StdRng::seed_from_u64(seed.wrapping_mul(1_000_003).wrapping_add(i));
    let mut g = Gen::new(&mut rng);
    g.with_input = with_input;
    g.with_stop = with_stop;
    g.fail_rate = fail_rate;
    g.program()
}

fn gen_replies(rng: &mut StdRng, n: usize) -> Vec<String> {
    (0..n).map(|_| reply_pool(rng)).collect()
}

const INSPECTIONS: &[&str] = &[
    "PRINT A;B;C", "PRINT S$;T$", "PRINT P(1);Q(1,1)", "PRINT 1/0", "PRINT \"x\"+1", "LIST", "PRINT FNA(\"x\")",
    "PRINT FNB(1/0)", "PRINT R$(99)", "PRINT I;J", "?", "PRINT (", "REM just looking", "NEXT Q9", "GOTO", "X9 = ",
    "PRINT FNE(0)", "PRINT FNE(1);FNE(0)", "PRINT FNE(FNE(0))", "DEF FNA(Q) = Q", "DEF FNC(Q) = 1", "PRINT 1 : PRINT 2 : PRINT 3",
];

/// C07: (program, schedule of breaks + inspections) vs (program, no breaks).
pub fn record_breakcont(seed: u64, n: usize, out: &str, rep: &mut Report) {
    let mut rec = Rec::new(out);
    for i in 0..n as u64 {
        let lines = gen_program(seed, i, true, true, 0.04);
        let mut rng = StdRng::seed_from_u64(seed ^ (i << 17) ^ 0xC07);
        let replies = gen_replies(&mut rng, 40);
        let base = RunCfg { lines: &lines, replies: &replies, trace: false, warn: false, break_p: 0.0, inspections: &[], budget: 1200, seed: Some(7) };
        let (ta, la) = run_scheduled(&mut rec, 2 * i, &base, &mut rng, json!({"driver": "breakcont", "role": "uninterrupted", "program": lines}));
        let p = [0.03, 0.1, 0.3][rng.gen_range(0..3)];
        let sched = RunCfg { break_p: p, inspections: INSPECTIONS, budget: 4000, ..base };
        let (tb, lb) = run_scheduled(&mut rec, 2 * i + 1, &sched, &mut rng, json!({"driver": "breakcont", "role": "interrupted", "program": lines}));
        rep.count("pairs");
        if ta.items.last().map(|s| s == "BUDGET").unwrap_or(false) || tb.items.last().map(|s| s == "BUDGET").unwrap_or(false) {
            rep.count("pairs_over_budget");
            continue;
        }
        if ta != tb || state_digest(&la) != state_digest(&lb) {
            let first = ta.items.iter().zip(&tb.items).position(|(a, b)| a != b).unwrap_or(ta.items.len().min(tb.items.len()));
            rep.violation("C07", "break_cont_changes_behaviour",
                json!({"transcripts_equal": ta == tb}),
                json!({"program": lines, "replies": replies, "break_p": p, "seed": seed, "index": i, "first_difference_at": first,
                       "uninterrupted": ta.items, "interrupted": tb.items}));
        } else if ta.items.len() > 1 {
            rep.count("pairs_nontrivial");
        }
        rep.sample(json!({"program": lines, "uninterrupted_transcript": ta.items}));
    }
    rec.finish(rep);
}

/// C07, last clause: assigning to a variable at a STOP changes the continuation exactly as the
/// same assignment written in place of the STOP would.  Run A: the program with `V = e` where
/// the STOP was.  Run B: the program with the STOP; when it stops, the host types `V = e`, then CONT.
pub fn record_stopassign(seed: u64, n: usize, out: &str, rep: &mut Report) {
    let mut rec = Rec::new(out);
    const ASSIGNS: &[&str] = &["A = 7", "B = A + 1", "S$ = \"changed\"", "P(2) = 5", "C = -0.5", "E = 100", "D = B * 2", "T$ = S$"];
    for i in 0..n as u64 {
        let mut rng = StdRng::seed_from_u64(seed ^ (i << 17) ^ 0xC07A);
        let lines = gen_program(seed ^ 0x5707, i, true, true, 0.03);
        if !lines.iter().any(|l| l.contains("STOP")) {
            continue;
        }
        let assign = ASSIGNS[rng.gen_range(0..ASSIGNS.len())];
        let replies = gen_replies(&mut rng, 40);
        // run A: assignment in place of every STOP
        let replaced: Vec<String> = lines.iter().map(|l| l.replace("STOP", assign)).collect();
        let base = RunCfg { lines: &replaced, replies: &replies, trace: false, warn: false, break_p: 0.0, inspections: &[], budget: 1500, seed: Some(5) };
        let (ta, la) = run_scheduled(&mut rec, 2 * i, &base, &mut rng, json!({"driver": "stopassign", "role": "assignment_in_place", "program": replaced}));
        // run B: at every STOP the host types the assignment, then CONT
        let run = 2 * i + 1;
        let mut s = rec.reset(run, false, false, json!({"driver": "stopassign", "role": "assignment_typed_at_stop", "program": lines, "assignment": assign}));
        rec.call(run, &mut s, call_randomize(5));
        for l in &lines {
            rec.call(run, &mut s, call_submit(l));
        }
        let mut tb = Transcript::default();
        let mut last = rec.call(run, &mut s, call_submit("RUN"));
        tb.absorb(&last);
        let (mut steps, mut ri) = (0, 0);
        while !s.dead && steps < 3000 {
            steps += 1;
            match s.mode() {
                "running" => { last = rec.call(run, &mut s, call_simple("continue")); tb.absorb(&last); }
                "awaiting" => {
                    let r = replies.get(ri).cloned().unwrap_or_else(|| "1".to_string());
                    ri += 1;
                    last = rec.call(run, &mut s, call_provide(&r));
                    tb.absorb(&last);
                }
                "idle" => {
                    let stopped = last["res"]["ok"] == true && last["snap"]["bp"]["some"] == true
                        && last["out"].as_array().map(|o| o.iter().any(|x| x["t"] == "break")).unwrap_or(false);
                    if !stopped { break; }
                    // the assignment (one or more host calls), then CONT
                    let mut ev = rec.call(run, &mut s, call_submit(assign));
                    let mut failed = ev["res"]["ok"] == false;
                    let mut guard = 0;
                    while !s.dead && s.mode() == "running" && guard < 20 {
                        ev = rec.call(run, &mut s, call_simple("continue"));
                        failed |= ev["res"]["ok"] == false;
                        guard += 1;
                    }
                    if failed {
                        // the typed assignment failed where run A's in-place assignment fails too: record it like run A does
                        tb.absorb(&ev);
                        last = ev;
                        break;
                    }
                    last = rec.call(run, &mut s, call_submit("CONT"));
                    tb.absorb(&last);
                }
                _ => break,
            }
        }
        rep.count("pairs");
        if steps >= 3000 || ta.items.last().map(|x| x == "BUDGET").unwrap_or(false) {
            rep.count("pairs_over_budget");
            continue;
        }
        // an error raised by the typed assignment has no line number, the in-place one does: compare kinds only there
        let norm = |t: &Transcript| -> Vec<String> { t.items.iter().map(|x| if x.starts_with("ERR:") { x.split('@').next().unwrap_or(x).to_string() } else { x.clone() }).collect() };
        if norm(&ta) != norm(&tb) || state_digest(&la)["vars"] != state_digest(&last)["vars"] || state_digest(&la)["arrays"] != state_digest(&last)["arrays"] {
            rep.violation("C07", "assignment_at_stop_differs_from_in_place", json!({"assignment": assign}),
                json!({"program": lines, "assignment": assign, "replies": replies, "in_place": ta.items, "typed_at_stop": tb.items}));
        } else {
            rep.count("pairs_nontrivial");
        }
        rep.sample(json!({"program": lines, "assignment": assign}));
    }
    rec.finish(rep);
}

/// C17: the same program and replies under the four trace/warn configurations.
pub fn record_flags4(seed: u64, n: usize, out: &str, rep: &mut Report) {
    let mut rec = Rec::new(out);
    for i in 0..n as u64 {
        let lines = gen_program(seed, i, true, false, 0.04);
        let mut rng = StdRng::seed_from_u64(seed ^ (i << 17) ^ 0xC17);
        let replies = gen_replies(&mut rng, 40);
        let mut results = vec![];
        for (k, (tr, wn)) in [(false, false), (true, false), (false, true), (true, true)].iter().enumerate() {
            let cfg = RunCfg { lines: &lines, replies: &replies, trace: *tr, warn: *wn, break_p: 0.0, inspections: &[], budget: 1200, seed: Some(11) };
            let (t, l) = run_scheduled(&mut rec, 4 * i + k as u64, &cfg, &mut rng, json!({"driver": "flags4", "trace": tr, "warn": wn, "program": lines}));
            results.push((t, state_digest(&l)));
        }
        rep.count("programs");
        for k in 1..4 {
            if results[k] != results[0] {
                rep.violation("C17", "flags_change_behaviour", json!({"config": k}),
                    json!({"program": lines, "replies": replies, "plain": results[0].0.items, "with_flags": results[k].0.items}));
                break;
            }
        }
        if results[0].0.items.len() > 1 {
            rep.count("programs_nontrivial");
        }
        rep.sample(json!({"program": lines}));
    }
    rec.finish(rep);
}

const HISTORY: &[&str] = &[
    "A = 5", "S$ = \"old\"", "DIM P(3)", "DIM Z(2,2)", "P(1) = 9", "FOR I = 1 TO 5", "FOR Q = 1 TO 2", "READ A", "READ S$",
    "GOSUB 20", "GOTO 30", "RUN", "CONT", "NEXT I", "RETURN", "PRINT 1/0", "X = ", "RESTORE", "TRACE", "NOTRACE", "LIST",
    "PRINT FNA(2)", "INPUT B", "STOP", "END", "5 REM", "5",
];

/// C10: RUN after an arbitrary session history vs RUN in a fresh interpreter
/// holding the same program, the same generator state and the same flags.
pub fn record_runfresh(seed: u64, n: usize, out: &str, rep: &mut Report) {
    let mut rec = Rec::new(out);
    for i in 0..n as u64 {
        let mut lines = gen_program(seed, i, true, true, 0.04);
        let mut rng = StdRng::seed_from_u64(seed ^ (i << 17) ^ 0xC10);
        if rng.gen_bool(0.12) {
            lines.clear();          // RUN on an empty program must reset just the same
        }
        let replies = gen_replies(&mut rng, 40);
        let (tr, wn) = (rng.gen_bool(0.3), rng.gen_bool(0.3));
        // interpreter X: program, then a history
        let run = 2 * i;
        let mut x = rec.reset(run, tr, wn, json!({"driver": "runfresh", "role": "history", "program": lines}));
        rec.call(run, &mut x, call_randomize(rng.gen_range(0..1u64 << 33)));
        for l in &lines {
            rec.call(run, &mut x, call_submit(l));
        }
        let steps = rng.gen_range(1..=8);
        let mut history = vec![];
        for _ in 0..steps {
            if x.dead {
                break;
            }
            match x.mode() {
                "idle" => {
                    let h = HISTORY[rng.gen_range(0..HISTORY.len())];
                    history.push(h.to_string());
                    rec.call(run, &mut x, call_submit(h));
                }
                "running" => {
                    let k = rng.gen_range(0..30);
                    for _ in 0..k {
                        if x.dead || x.mode() != "running" {
                            break;
                        }
                        rec.call(run, &mut x, call_simple("continue"));
                    }
                    if !x.dead && x.mode() == "running" && rng.gen_bool(0.6) {
                        history.push("<break>".to_string());
                        rec.call(run, &mut x, call_simple("break"));
                    }
                }
                "awaiting" => {
                    if rng.gen_bool(0.7) {
                        let r = reply_pool(&mut rng);
                        history.push(format!("<reply {}>", r));
                        rec.call(run, &mut x, call_provide(&r));
                        // maybe break before the reply is consumed
                        if !x.dead && rng.gen_bool(0.5) {
                            history.push("<break>".to_string());
                            rec.call(run, &mut x, call_simple("break"));
                        }
                    } else {
                        history.push("<break>".to_string());
                        rec.call(run, &mut x, call_simple("break"));
                    }
                }
                _ => break,
            }
        }
        // bring X to idle
        let mut guard = 0;
        while !x.dead && x.mode() != "idle" && guard < 5 {
            if x.mode() == "new" {
                break;
            }
            rec.call(run, &mut x, call_simple("break"));
            guard += 1;
        }
        if x.dead || x.mode() != "idle" {
            rep.count("histories_unusable");
            continue;
        }
        let snap = abasic_core::verif::snapshot(&x.interp);
        // the edits in the history may have changed the program: the reference is whatever X holds now
        let listing: Vec<String> = crate::lexrows::list_program(&mut x.interp).unwrap_or_default().iter().map(|l| l.trim_end_matches('\n').to_string()).collect();
        let mut ta = Transcript::default();
        let mut last_a = rec.call(run, &mut x, call_submit("RUN"));
        ta.absorb(&last_a);
        let mut ri = 0;
        let mut steps_a = 0;
        while !x.dead && x.mode() != "idle" && steps_a < 1500 {
            last_a = if x.mode() == "awaiting" {
                let r = replies.get(ri).cloned().unwrap_or("1".to_string());
                ri += 1;
                rec.call(run, &mut x, call_provide(&r))
            } else if x.mode() == "running" {
                rec.call(run, &mut x, call_simple("continue"))
            } else {
                break;
            };
            ta.absorb(&last_a);
            steps_a += 1;
        }
        // interpreter Y: fresh, same program text, same generator state, same flags
        let run_b = 2 * i + 1;
        let mut y = rec.reset(run_b, snap.enable_tracing, snap.enable_warnings, json!({"driver": "runfresh", "role": "fresh", "program": listing}));
        rec.call(run_b, &mut y, call_randomize(snap.seed));
        for l in &listing {
            rec.call(run_b, &mut y, call_submit(l));
        }
        let mut tb = Transcript::default();
        let mut last_b = rec.call(run_b, &mut y, call_submit("RUN"));
        tb.absorb(&last_b);
        let mut ri = 0;
        let mut steps_b = 0;
        while !y.dead && y.mode() != "idle" && steps_b < 1500 {
            last_b = if y.mode() == "awaiting" {
                let r = replies.get(ri).cloned().unwrap_or("1".to_string());
                ri += 1;
                rec.call(run_b, &mut y, call_provide(&r))
            } else if y.mode() == "running" {
                rec.call(run_b, &mut y, call_simple("continue"))
            } else {
                break;
            };
            tb.absorb(&last_b);
            steps_b += 1;
        }
        rep.count("histories");
        if steps_a >= 1500 || steps_b >= 1500 {
            rep.count("histories_over_budget");
            if steps_a != steps_b {
                rep.violation("C10", "run_after_history_differs", json!({"what": "length"}), json!({"program": listing, "history": history}));
            }
            continue;
        }
        if ta != tb || state_digest(&last_a) != state_digest(&last_b) {
            rep.violation("C10", "run_after_history_differs", json!({"transcripts_equal": ta == tb}),
                json!({"program": listing, "history": history, "replies": replies, "after_history": ta.items, "fresh": tb.items}));
        } else if ta.items.len() > 1 {
            rep.count("histories_nontrivial");
        }
        rep.sample(json!({"history": history, "program_lines": listing.len()}));
    }
    rec.finish(rep);
}

/// C08: INPUT v answered with "5" vs the same program with `v = 5` in place of the INPUT.
pub fn record_inputassign(seed: u64, n: usize, out: &str, rep: &mut Report) {
    let mut rec = Rec::new(out);
    for i in 0..n as u64 {
        let lines = gen_program(seed, i, true, false, 0.03);
        if !lines.iter().any(|l| l.contains("INPUT")) {
            continue;
        }
        let mut rng = StdRng::seed_from_u64(seed ^ (i << 17) ^ 0xC08);
        // the value is always 5; every seventh reply spells it after 280 blanks (longer than any old line buffer)
        let replies: Vec<String> = (0..60).map(|k| if k % 7 == 3 { format!("{}5", " ".repeat(280)) } else { "5".to_string() }).collect();
        let cfg = RunCfg { lines: &lines, replies: &replies, trace: false, warn: false, break_p: 0.0, inspections: &[], budget: 1500, seed: Some(3) };
        let (ta, la) = run_scheduled(&mut rec, 2 * i, &cfg, &mut rng, json!({"driver": "inputassign", "role": "input", "program": lines}));
        // replace every "INPUT <target>" by "<target> = 5"
        let assigned: Vec<String> = lines.iter().map(|l| replace_inputs(l)).collect();
        let cfg2 = RunCfg { lines: &assigned, ..cfg };
        let (tb, lb) = run_scheduled(&mut rec, 2 * i + 1, &cfg2, &mut rng, json!({"driver": "inputassign", "role": "assignment", "program": assigned}));
        rep.count("pairs");
        // a program that does not end within the call budget is cut at different statements in the two
        // runs (INPUT takes two calls, an assignment one), and one that asks more often than there are
        // scripted replies gets a different value: neither pair says anything about C08
        let over = |t: &Transcript| t.items.last().map(|s| s == "BUDGET").unwrap_or(false);
        if over(&ta) || over(&tb) || ta.items.iter().filter(|s| s.starts_with("INPUT<-")).count() >= replies.len() {
            rep.count("pairs_over_budget");
            continue;
        }
        let strip = |t: &Transcript| -> Vec<String> { t.items.iter().filter(|s| !s.starts_with("INPUT<-")).cloned().collect() };
        if strip(&ta) != strip(&tb) || state_digest(&la) != state_digest(&lb) {
            rep.violation("C08", "input_differs_from_assignment", json!({}),
                json!({"program": lines, "with_assignments": assigned, "input_run": ta.items, "assignment_run": tb.items}));
        } else {
            rep.count("pairs_nontrivial");
        }
        rep.sample(json!({"program": lines}));
    }
    rec.finish(rep);
}

fn replace_inputs(line: &str) -> String {
    // "INPUT X" / "INPUT P(3)" are generated with a single target that runs to the next " : " / " ELSE " / end
    let mut out = String::new();
    let mut rest = line;
    while let Some(pos) = rest.find("INPUT ") {
        out.push_str(&rest[..pos]);
        let after = &rest[pos + 6..];
        let end = [after.find(" : "), after.find(" ELSE ")].iter().flatten().min().copied().unwrap_or(after.len());
        out.push_str(&format!("{} = 5", &after[..end]));
        rest = &after[end..];
    }
    out.push_str(rest);
    out
}

const PROBES: &[&str] = &["CONT", "RETURN", "NEXT I", "NEXT J", "READ A", "READ S$", "PRINT FNA(1)", "GOTO 10", "PRINT A;B;S$", "PRINT P(1)", "LIST", "RUN"];

/// C11: run a program to a random suspension point, edit it, then probe.
pub fn record_editprobe(seed: u64, n: usize, out: &str, rep: &mut Report) {
    let mut rec = Rec::new(out);
    for i in 0..n as u64 {
        let lines = gen_program(seed, i, true, true, 0.05);
        let mut rng = StdRng::seed_from_u64(seed ^ (i << 17) ^ 0xC11);
        let mut s = rec.reset(i, false, false, json!({"driver": "editprobe", "program": lines}));
        for l in &lines {
            rec.call(i, &mut s, call_submit(l));
        }
        rec.call(i, &mut s, call_submit("RUN"));
        // run to a random suspension point
        let target = rng.gen_range(0..120);
        let mut k = 0;
        while !s.dead && k < target {
            match s.mode() {
                "running" => { rec.call(i, &mut s, call_simple("continue")); }
                "awaiting" => {
                    if rng.gen_bool(0.3) { break; }
                    rec.call(i, &mut s, call_provide(&reply_pool(&mut rng)));
                }
                _ => break,
            }
            k += 1;
        }
        if !s.dead && (s.mode() == "running" || s.mode() == "awaiting") {
            rec.call(i, &mut s, call_simple("break"));
        }
        if s.dead || s.mode() != "idle" {
            continue;
        }
        rep.count("suspensions");
        // an edit
        let snap = abasic_core::verif::snapshot(&s.interp);
        let cur = snap.breakpoint.as_ref().and_then(|b| b.line);
        let frame_line = snap.stack.last().and_then(|f| f.return_location.line);
        let edit = match rng.gen_range(0..7) {
            0 => "7 REM new line".to_string(),
            1 => cur.map(|l| format!("{} PRINT \"replaced\"", l)).unwrap_or("15 REM".to_string()),
            2 => cur.map(|l| format!("{}", l)).unwrap_or("10".to_string()),
            3 => frame_line.map(|l| format!("{}", l)).unwrap_or("20".to_string()),
            4 => "30 PRINT \"unterminated".to_string(),
            5 => cur.map(|l| format!("{} %", l)).unwrap_or("10 %".to_string()),
            _ => "99999 DATA 42, \"edited\"".to_string(),
        };
        rec.call(i, &mut s, call_submit(&edit));
        // probes
        let np = rng.gen_range(1..=4);
        for _ in 0..np {
            if s.dead || s.mode() != "idle" {
                break;
            }
            let p = PROBES[rng.gen_range(0..PROBES.len())];
            rec.call(i, &mut s, call_submit(p));
            let mut guard = 0;
            while !s.dead && guard < 40 {
                match s.mode() {
                    "running" => { rec.call(i, &mut s, call_simple("continue")); }
                    "awaiting" => { rec.call(i, &mut s, call_simple("break")); }
                    _ => break,
                }
                guard += 1;
            }
        }
        rep.sample(json!({"program_lines": lines.len(), "edit": edit}));
    }
    rec.finish(rep);
}

/// C01 / C16: the boundary catalogue -- every place the code does 64-bit or usize arithmetic on a
/// number the user wrote: array sizes and subscripts around 2^31, 2^32, 2^63, 2^64 (alone, first,
/// last, after a small axis), 19+ subscripts, line numbers and jump targets at the u64 extremes,
/// loop bounds and exponents that overflow to infinity, seeds at and beyond the generator's
/// modulus.  Each line is tried at the prompt and as a one-line program; the session must
/// survive and remain usable.  (The model treats these numerals as Opaque: only monitors judge.)
pub fn record_boundary(shard: u64, shards: u64, out: &str, rep: &mut Report) {
    let mut rec = Rec::new(out);
    let big = ["2147483647", "2147483648", "4294967295", "4294967296", "9223372036854775807", "9223372036854775808",
               "18446744073709551615", "18446744073709551616", "99999999999999999999", "1844674407370955", "1844674407370956"];
    let mut lines: Vec<String> = vec![];
    for b in big {
        lines.push(format!("DIM A({})", b));
        lines.push(format!("DIM A({},{})", b, b));
        lines.push(format!("DIM A(1,{})", b));
        lines.push(format!("DIM A({},1)", b));
        lines.push(format!("DIM A$(9999,{})", b));
        lines.push(format!("DIM A(3,3,{})", b));
        lines.push(format!("A({}) = 1", b));
        lines.push(format!("PRINT A({})", b));
        lines.push(format!("PRINT A(1,{})", b));
        lines.push(format!("PRINT A$({},1)", b));
        lines.push(format!("DIM A(2,2) : A(1,{}) = 1", b));
        lines.push(format!("GOTO {}", b));
        lines.push(format!("GOSUB {}", b));
        lines.push(format!("IF 1 THEN {}", b));
        lines.push(format!("FOR I = {} TO {} STEP {}", b, b, b));
        lines.push(format!("FOR I = 1 TO {} : NEXT I", b));
        lines.push(format!("PRINT 10 ^ {}", b));
        lines.push(format!("PRINT {} * {} * {} * {} * {}", b, b, b, b, b));
        lines.push(format!("PRINT INT({}) ; ABS(-{}) ; RND({})", b, b, b));
        lines.push(format!("X = {} : PRINT A(X) : DIM B(X,X)", b));
    }
    for n in [4usize, 5, 18, 19, 20, 64, 300] {
        lines.push(format!("PRINT A({})", vec!["1"; n].join(",")));
        lines.push(format!("A({}) = 1", vec!["10"; n].join(",")));
        lines.push(format!("DIM A({})", vec!["10"; n].join(",")));
        lines.push(format!("DIM A({})", vec!["0"; n].join(",")));
    }
    lines.push("DIM A(10000)".into());
    lines.push("DIM A(9999) : A(9999) = 1 : PRINT A(9999)".into());
    lines.push("DIM A(99,99) : A(99,99) = 1 : PRINT A(99,99)".into());
    lines.push("DIM A(99,100)".into());
    lines.push("PRINT 1/0 ; A(1/0)".into());
    lines.push("PRINT A(-1) ; A(-0.5) ; A(0.999)".into());
    lines.push("PRINT 2^1024 ; -2^1024 ; 2^1024 - 2^1024".into());
    lines.push("X = 2^1024 : PRINT A(X) : GOTO 10".into());
    lines.push("X = 2^1024 - 2^1024 : PRINT A(X) ; INT(X) ; RND(X)".into());
    lines.push("FOR I = 1 TO 2^1024 - 2^1024 : NEXT I".into());
    let numbers = ["0", "00000000000000000000000010", "18446744073709551614", "18446744073709551615", "18446744073709551616", "99999999999999999999999999"];
    let seeds = [0u64, 1, (1 << 33) - 1, 1 << 33, (1 << 33) + 1, 1 << 43, 11081109438221, 11081109438222, 1 << 44, 1 << 63, u64::MAX - 1, u64::MAX];
    let mut run = 0u64;
    let shards = shards.max(1);
    let mut session = |rec: &mut Rec, calls: Vec<J>| {
        run += 1;
        if (run - 1) % shards != shard % shards {
            return;
        }
        let run = run - 1;
        let mut s = rec.reset(run, false, false, json!({"driver": "boundary"}));
        for c in calls {
            if s.dead || !s.legal(c["k"].as_str().unwrap_or("")) {
                break;
            }
            rec.call(run, &mut s, c);
            let mut guard = 0;
            while !s.dead && s.mode() == "running" && guard < 300 {
                rec.call(run, &mut s, call_simple("continue"));
                guard += 1;
            }
            if !s.dead && s.mode() != "idle" {
                rec.call(run, &mut s, call_simple("break"));
            }
        }
        // still usable?
        if !s.dead {
            let ev = rec.call(run, &mut s, call_submit("PRINT 7"));
            if ev["panic"] != true && !(ev["res"]["ok"] == true && ev["out"].as_array().map(|o| o.len()) == Some(1)) {
                rec.monitor_hits.push(json!({"property": "C01", "class": "unusable_after_boundary_input", "features": {}, "replay": {"run": run, "event": ev}}));
            }
        }
    };
    for l in &lines {
        session(&mut rec, vec![call_submit(l)]);
        session(&mut rec, vec![call_submit(&format!("10 {}", l)), call_submit("RUN"), call_submit("LIST")]);
        rep.count("boundary_lines");
    }
    for n in numbers {
        session(&mut rec, vec![call_submit(&format!("{} PRINT 1", n)), call_submit("5 PRINT 0"), call_submit("RUN"), call_submit("LIST"), call_submit(n), call_submit("RUN")]);
        session(&mut rec, vec![call_submit(&format!("{} GOTO {}", n, n)), call_submit("RUN")]);
        rep.count("boundary_line_numbers");
    }
    for sd in seeds {
        session(&mut rec, vec![call_randomize(sd), call_submit("PRINT RND(0) < 1 ; RND(1) < 1 ; RND(0) < 1"), call_submit("10 PRINT RND(1) >= 0 : PRINT RND(-1)"), call_submit("RUN")]);
        rep.count("boundary_seeds");
    }
    rec.finish(rep);
}

fn fuzz_line(rng: &mut StdRng) -> String {
    const STMTS: &[&str] = &[
        "PRINT 1", "X = X + 1", "10 PRINT X", "20 GOTO 10", "30 INPUT A$", "40 STOP", "50 GOSUB 50", "10", "20", "RUN", "CONT", "LIST", "NEW",
        "TRACE", "NOTRACE", "FOR I = 1 TO 3", "NEXT I", "RETURN", "DIM A(3,3)", "A(1,1) = 2", "READ Q", "RESTORE", "15 DATA 1,2,x",
        "DEF F(X) = X", "25 DEF F(X) = X * F(X - 1)", "PRINT F(3)", "END", "STOP", "INPUT Z", "IF X THEN 10", "IF 1 THEN PRINT 2 ELSE PRINT 3",
        "GOTO 10", "GOSUB 40", "PRINT 1/0", "PRINT \"a\" + 1", "PRINT RND(1)", "PRINT RND(-1)", "run", " list", "cont",
    ];
    const SOUP: &[&str] = &["PRINT", "(", ")", "\"", "1", "99999999999999999999", "4294967295", "9223372036854775808", ".", "A", "$", ",", ";", ":", "=", "<", ">",
        "+", "-", "*", "/", "^", "IF", "THEN", "ELSE", "FOR", "TO", "NEXT", "DIM", "DATA", "REM", "GOSUB", "GOTO", "é", "😊", "ı", "ß", " ", "\t", "%", "INPUT", "DEF", "ABS", "INT", "RND", "AND", "OR", "NOT", "18446744073709551615 ", "0 "];
    match rng.gen_range(0..10) {
        0..=5 => STMTS[rng.gen_range(0..STMTS.len())].to_string(),
        6..=8 => {
            let n = rng.gen_range(1..=8);
            (0..n).map(|_| SOUP[rng.gen_range(0..SOUP.len())]).collect::<Vec<_>>().join(if rng.gen_bool(0.5) { " " } else { "" })
        }
        _ => {
            let depth = [3usize, 20, 60][rng.gen_range(0..3)];
            match rng.gen_range(0..4) {
                0 => format!("PRINT {}1{}", "(".repeat(depth), ")".repeat(depth)),
                1 => format!("PRINT {}1{}", "ABS(".repeat(depth), ")".repeat(depth)),
                2 => format!("{}PRINT 1", "IF 1 THEN ".repeat(depth)),
                _ => format!("DIM B({})", vec!["10"; depth.min(25)].join(",")),
            }
        }
    }
}

/// C01 / C16: random protocol-respecting sessions over valid statements, token
/// soup, raw UTF-8 and boundary numerals.  Monitors run in the replayer-side
/// `monitors` function; here we only count.
pub fn record_fuzz(seed: u64, n: usize, out: &str, rep: &mut Report) {
    let mut rec = Rec::new(out);
    for i in 0..n as u64 {
        let mut rng = StdRng::seed_from_u64(seed ^ (i << 20) ^ 0xC01);
        let mut s = rec.reset(i, rng.gen_bool(0.3), rng.gen_bool(0.3), json!({"driver": "fuzz"}));
        let len = rng.gen_range(5..60);
        for _ in 0..len {
            if s.dead {
                break;
            }
            let ev = match s.mode() {
                "idle" => {
                    if rng.gen_bool(0.03) {
                        let seeds = [0u64, 1, (1 << 33) - 1, 1 << 33, 1 << 43, 1 << 44, 1 << 63, u64::MAX, 11081109438222];
                        rec.call(i, &mut s, call_randomize(seeds[rng.gen_range(0..seeds.len())]))
                    } else {
                        rec.call(i, &mut s, call_submit(&fuzz_line(&mut rng)))
                    }
                }
                "running" => {
                    if rng.gen_bool(0.1) { rec.call(i, &mut s, call_simple("break")) } else { rec.call(i, &mut s, call_simple("continue")) }
                }
                "awaiting" => {
                    if rng.gen_bool(0.2) { rec.call(i, &mut s, call_simple("break")) } else { rec.call(i, &mut s, call_provide(&reply_pool(&mut rng))) }
                }
                "new" => rec.call(i, &mut s, call_simple("replace")),
                _ => break,
            };
            rep.count("calls");
            let _ = &ev;
        }
        rep.count("sessions");
    }
    rec.finish(rep);
}

/// `cycles`: long histories.  The same program RUN dozens of times in one interpreter (with
/// immediate DIMs, edits that re-enter a line, TRACE toggles and NEW in between), and silent
/// programs that keep the host calling `continue_evaluating` ten thousand times without a single
/// output record.  Whatever the implementation accumulates over such a history (a counter, a
/// cache, a batch size) that the model does not have shows up as a difference at some later step.
pub fn record_cycles(seed: u64, n: usize, out: &str, warn: bool, rep: &mut Report) {
    let mut rec = Rec::new(out);
    if warn {
        // one run with warnings on that reads a never-assigned variable more than ten thousand times:
        // every read warns, the first and the last alike
        let lines = vec!["10 FOR I=1 TO 10300".to_string(), "20 A=K9".to_string(), "30 NEXT I".to_string(), "40 PRINT A;I".to_string()];
        let mut s = rec.reset(900_000 + seed, false, true, json!({"driver": "cycles", "role": "warnings", "program": lines}));
        let mut replies = || "1".to_string();
        run_program(&mut rec, 900_000 + seed, &mut s, &lines, &mut replies, 60000);
        rep.count("long_warning_runs");
    }
    let fixed: Vec<Vec<&str>> = vec![
        vec!["10 DIM M(99,99):M(5,5)=7:PRINT M(5,5)"],
        vec!["10 A(1,1,1)=1:B(2,2,2)=2:C(3,3,3)=3:PRINT A(1,1,1)+B(2,2,2)+C(3,3,3)"],
        vec!["10 DIM S$(2000):S$(7)=\"abcdefghij\":PRINT S$(7);", "20 FOR I=1 TO 3:GOSUB 100:NEXT I:READ A,B$:PRINT A;B$", "30 DATA 4,\"x\"", "40 END", "100 K=K+1:RETURN"],
        vec!["10 DEF F(X)=X*2:FOR I=1 TO 2:FOR J=1 TO 2:N=N+F(J):NEXT J:NEXT I:PRINT N"],
        // programs that fail, deep inside an expression, every time they are run
        vec!["10 PRINT \"go\"", "20 PRINT ((100/A))"],
        vec!["10 DEF F(X)=(1/X):PRINT (F((0)))"],
    ];
    if !warn && seed % 100 == 0 {
        // (first shard only) a breakpoint, then exactly 256 / 257 successful edits, then CONT: still CAN'T CONTINUE
        for (k, edits) in [256u64, 257].iter().enumerate() {
            let run = 800_000 + seed * 10 + k as u64;
            let lines = vec!["10 X=1:STOP".to_string(), "20 PRINT \"OLD RUN GOES ON\"".to_string()];
            let mut s = rec.reset(run, false, false, json!({"driver": "cycles", "role": "many_edits", "edits": edits}));
            for l in &lines { rec.call(run, &mut s, call_submit(l)); }
            rec.call(run, &mut s, call_submit("RUN"));
            let mut replies = || "1".to_string();
            drain(&mut rec, run, &mut s, &mut replies, 50);
            for e in 0..*edits {
                if s.dead { break; }
                rec.call(run, &mut s, call_submit(&format!("{} REM {}", 1000 + e, e)));
            }
            if !s.dead { rec.call(run, &mut s, call_submit("CONT")); }
            drain(&mut rec, run, &mut s, &mut replies, 50);
            rep.count("many_edit_sessions");
        }
    }
    for i in 0..n as u64 {
        let mut rng = StdRng::seed_from_u64(seed ^ (i << 17) ^ 0xC1C);
        if i % 3 == 2 {
            // a silent long run: > 10000 turns, no output until the end
            let limit = 2600 + (i % 5) * 700;
            let lines = vec![format!("10 I=I+1:IF I<{} THEN 10", limit), "20 J=J+1".to_string(), format!("30 IF J<{} THEN GOTO 20", limit / 2), "40 PRINT I;J".to_string()];
            let mut s = rec.reset(i, false, false, json!({"driver": "cycles", "role": "longrun", "program": lines}));
            let mut replies = || "1".to_string();
            run_program(&mut rec, i, &mut s, &lines, &mut replies, 40000);
            rep.count("long_runs");
            continue;
        }
        let lines: Vec<String> = if i % 3 == 0 { fixed[(i as usize / 3) % fixed.len()].iter().map(|x| x.to_string()).collect() } else { gen_program(seed, i, false, false, 0.0) };
        let mut s = rec.reset(i, false, false, json!({"driver": "cycles", "role": "many_runs", "program": lines}));
        for l in &lines {
            rec.call(i, &mut s, call_submit(l));
        }
        let rounds = rng.gen_range(20..=30);
        for r in 0..rounds {
            if s.dead { break; }
            rec.call(i, &mut s, call_submit("RUN"));
            let mut replies = || "1".to_string();
            drain(&mut rec, i, &mut s, &mut replies, 3000);
            if s.dead || s.mode() != "idle" { break; }
            match rng.gen_range(0..8) {
                0 => { rec.call(i, &mut s, call_submit(&format!("DIM Z{}(99,99)", r))); }
                1 => { let l = lines[rng.gen_range(0..lines.len())].clone(); rec.call(i, &mut s, call_submit(&l)); }
                2 => { rec.call(i, &mut s, call_submit(if r % 2 == 0 { "TRACE" } else { "NOTRACE" })); }
                3 => { rec.call(i, &mut s, call_submit("Q9(1,1,1)=1:PRINT Q9(1,1,1)")); }
                _ => {}
            }
            // an immediate line of several statements keeps running: finish it before the next command
            let mut replies = || "1".to_string();
            drain(&mut rec, i, &mut s, &mut replies, 200);
        }
        rep.count("sessions");
    }
    rec.finish(rep);
}
