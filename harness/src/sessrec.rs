//! Implementation -> spec: drivers that run the real interpreter and write
//! ndjson traces for Trace_Session.tla.
use crate::progs::Gen;
use crate::session::*;
use rand::rngs::StdRng;
use rand::{Rng, SeedableRng};
use serde_json::{json, Value as J};
use std::io::Write;

pub struct Rec {
    pub f: std::io::BufWriter<std::fs::File>,
    pub events: u64,
}

impl Rec {
    pub fn new(path: &str) -> Self {
        Rec { f: std::io::BufWriter::new(std::fs::File::create(path).expect("create trace")), events: 0 }
    }
    pub fn write(&mut self, ev: &J) {
        // TLC's JSON reader rejects null: drop null-valued keys
        fn strip(j: &J) -> J {
            match j {
                J::Object(o) => J::Object(o.iter().filter(|(_, v)| !v.is_null()).map(|(k, v)| (k.clone(), strip(v))).collect()),
                J::Array(a) => J::Array(a.iter().map(strip).collect()),
                other => other.clone(),
            }
        }
        let ev = &strip(ev);
        writeln!(self.f, "{}", ev).unwrap();
        self.events += 1;
    }
    pub fn reset(&mut self, run: u64, trace: bool, warn: bool, meta: J) -> Sess {
        self.write(&json!({"run": run, "c": call_reset(trace, warn), "dom": true, "panic": false,
            "res": {"ok": true, "kind": "", "hl": false, "line": [], "tok": 0}, "out": [], "snap": {}, "edit": {"some": false, "k": [], "toks": []}, "meta": meta}));
        Sess::new(trace, warn)
    }
    pub fn call(&mut self, run: u64, s: &mut Sess, c: J) -> J {
        let mut ev = s.apply(&c);
        ev["run"] = json!(run);
        self.write(&ev);
        ev
    }
}

/// Enter a program, RUN it, and keep the turn-taking protocol going until the
/// interpreter is idle (or the budget is used up, then break).
pub fn run_program(rec: &mut Rec, run: u64, s: &mut Sess, lines: &[String], replies: &mut dyn FnMut() -> String, budget: usize) {
    for l in lines {
        if s.dead { return; }
        rec.call(run, s, call_submit(l));
    }
    if s.dead || s.mode() != "idle" { return; }
    rec.call(run, s, call_submit("RUN"));
    drain(rec, run, s, replies, budget);
}

pub fn drain(rec: &mut Rec, run: u64, s: &mut Sess, replies: &mut dyn FnMut() -> String, budget: usize) {
    let mut n = 0;
    while !s.dead {
        match s.mode() {
            "running" => {
                if n >= budget {
                    rec.call(run, s, call_simple("break"));
                    return;
                }
                rec.call(run, s, call_simple("continue"));
            }
            "awaiting" => {
                if n >= budget {
                    rec.call(run, s, call_simple("break"));
                    return;
                }
                let r = replies();
                rec.call(run, s, call_provide(&r));
            }
            _ => return,
        }
        n += 1;
    }
}

pub fn reply_pool(rng: &mut StdRng) -> String {
    let xs = ["5", " 7 ", "abc", "", "\"q\"", "1,2", "1:2", "x,y", "007", "2.5", "-3", "0"];
    xs[rng.gen_range(0..xs.len())].to_string()
}

/// `progs`: generated structured programs, run to completion.
pub fn record_programs(seed: u64, n: usize, out: &str, with_input: bool, trace: bool, warn: bool) {
    let mut rec = Rec::new(out);
    for i in 0..n {
        let mut rng = StdRng::seed_from_u64(seed.wrapping_mul(1_000_003).wrapping_add(i as u64));
        let lines = {
            let mut g = Gen::new(&mut rng);
            g.with_input = with_input;
            g.program()
        };
        let mut s = rec.reset(i as u64, trace, warn, json!({"driver": "progs", "program": lines}));
        let mut rng2 = StdRng::seed_from_u64(seed ^ (i as u64) << 20);
        let mut replies = || reply_pool(&mut rng2);
        run_program(&mut rec, i as u64, &mut s, &lines, &mut replies, 1500);
    }
}
