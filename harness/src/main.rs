mod analyzer;
mod c06;
mod cli;
mod deep;
mod exprrec;
mod exprrows;
mod lexrec;
mod lexrows;
mod lsp;
mod model;
mod progs;
mod report;
mod rng;
mod session;
mod web;
mod sessrec;
mod sessrows;

use report::Report;
use std::io::Read;

fn read_input(path: &str) -> String {
    let mut s = String::new();
    if path == "-" {
        std::io::stdin().read_to_string(&mut s).unwrap();
    } else {
        s = String::from_utf8_lossy(&std::fs::read(path).expect("read input")).into_owned();
    }
    s
}

fn main() {
    // Panics in the code under test are data: the hook is silenced, drivers catch_unwind.
    // (panics of the harness itself are still printed)
    std::panic::set_hook(Box::new(|info| {
        if !session::IN_SUT.with(|f| f.get()) {
            eprintln!("vh: internal panic: {}", info);
        }
    }));
    // error Display must not include backtraces
    std::env::set_var("RUST_BACKTRACE", "0");
    let args: Vec<String> = std::env::args().collect();
    let cmd = args.get(1).map(|s| s.as_str()).unwrap_or("");
    let mut rep = Report::default();
    match cmd {
        // vh lex-replay <tlc-output> <report.json>
        "lex-replay" => {
            let text = read_input(&args[2]);
            lexrows::replay_rows(&text, &mut rep);
            std::fs::write(&args[3], serde_json::to_string(&rep.to_json()).unwrap()).unwrap();
        }
        // vh expr-replay <tlc-output> <report.json>
        "expr-replay" => {
            let text = read_input(&args[2]);
            exprrows::replay_rows(&text, &mut rep);
            std::fs::write(&args[3], serde_json::to_string(&rep.to_json()).unwrap()).unwrap();
        }
        // vh for-steps <seed> <n> <report.json>
        "for-steps" => {
            exprrec::for_steps(args[2].parse().unwrap(), args[3].parse().unwrap(), &mut rep);
            std::fs::write(&args[4], serde_json::to_string(&rep.to_json()).unwrap()).unwrap();
        }
        // vh expr-literals <seed> <n> <report.json>
        "expr-literals" => {
            exprrec::literals(args[2].parse().unwrap(), args[3].parse().unwrap(), &mut rep);
            std::fs::write(&args[4], serde_json::to_string(&rep.to_json()).unwrap()).unwrap();
        }
        // vh expr-record <seed> <n> <out.ndjson>
        "expr-record" => {
            exprrec::record(args[2].parse().unwrap(), args[3].parse().unwrap(), &args[4]);
        }
        // vh rng-replay <tlc-output> <report.json>   |   vh rng-record <seed> <n> <out.ndjson>
        "rng-replay" => {
            let text = read_input(&args[2]);
            rng::replay_rows(&text, &mut rep);
            std::fs::write(&args[3], serde_json::to_string(&rep.to_json()).unwrap()).unwrap();
        }
        "rng-record" => {
            rng::record(args[2].parse().unwrap(), args[3].parse().unwrap(), &args[4]);
        }
        // vh ana-replay <tlc-output> <report.json>
        "ana-replay" => {
            let text = read_input(&args[2]);
            analyzer::replay_rows(&text, &mut rep);
            std::fs::write(&args[3], serde_json::to_string(&rep.to_json()).unwrap()).unwrap();
        }
        // vh ana-record <seed> <n> <out.ndjson> <report.json>
        "ana-record" => {
            analyzer::record(args[2].parse().unwrap(), args[3].parse().unwrap(), &args[4], &mut rep);
            std::fs::write(&args[5], serde_json::to_string(&rep.to_json()).unwrap()).unwrap();
        }
        // vh c06-replay <tlc-output> <report.json>   |   vh c06-forward <seed> <n> <report.json>
        "c06-replay" => {
            let text = read_input(&args[2]);
            c06::replay_rows(&text, &mut rep);
            std::fs::write(&args[3], serde_json::to_string(&rep.to_json()).unwrap()).unwrap();
        }
        "c06-forward" => {
            c06::forward_programs(args[2].parse().unwrap(), args[3].parse().unwrap(), &mut rep);
            std::fs::write(&args[4], serde_json::to_string(&rep.to_json()).unwrap()).unwrap();
        }
        // vh deep-one <kind> <depth>     (run in a child process by the check)
        "deep-one" => {
            deep::run(&args[2], args[3].parse().unwrap());
        }
        // vh cli-replay <tlc-output> <abasic binary> <scratch dir> <report.json>
        "cli-replay" => {
            let text = read_input(&args[2]);
            cli::replay_rows(&text, &args[3], &args[4], &mut rep);
            std::fs::write(&args[5], serde_json::to_string(&rep.to_json()).unwrap()).unwrap();
        }
        // vh cli-record <seed> <n> <abasic binary> <scratch dir> <out.ndjson> <report.json>
        "cli-record" => {
            cli::record(args[2].parse().unwrap(), args[3].parse().unwrap(), &args[4], &args[5], &args[6], &mut rep);
            std::fs::write(&args[7], serde_json::to_string(&rep.to_json()).unwrap()).unwrap();
        }
        // vh web-replay <tlc-output> <facts: 3 x 0|1> <report.json>   |   vh web-record <seed> <n> <facts> <out.ndjson> <report.json>
        "web-replay" | "web-record" => {
            let fa = if cmd == "web-replay" { &args[3] } else { &args[4] };
            let b: Vec<bool> = fa.chars().map(|c| c == '1').collect();
            let facts = web::Facts { loader_checks_error: b[0], loader_skips_blank: b[1], loader_skips_unnumbered: b[2] };
            if cmd == "web-replay" {
                let text = read_input(&args[2]);
                web::replay_rows(&text, facts, &mut rep);
                std::fs::write(&args[4], serde_json::to_string(&rep.to_json()).unwrap()).unwrap();
            } else {
                web::record(args[2].parse().unwrap(), args[3].parse().unwrap(), facts, &args[5], &mut rep);
                std::fs::write(&args[6], serde_json::to_string(&rep.to_json()).unwrap()).unwrap();
            }
        }
        // vh lsp-replay <tlc-output> <abasic-lsp binary> <report.json>   |   vh lsp-record <seed> <n> <binary> <out.ndjson> <report.json>
        "lsp-replay" => {
            let text = read_input(&args[2]);
            lsp::replay_rows(&text, &args[3], &mut rep);
            std::fs::write(&args[4], serde_json::to_string(&rep.to_json()).unwrap()).unwrap();
        }
        "lsp-record" => {
            lsp::record(args[2].parse().unwrap(), args[3].parse().unwrap(), &args[4], &args[5], &mut rep);
            std::fs::write(&args[6], serde_json::to_string(&rep.to_json()).unwrap()).unwrap();
        }
        // vh lex-record <seed> <n> <out.ndjson>
        "lex-record" => {
            lexrec::record(args[2].parse().unwrap(), args[3].parse().unwrap(), &args[4]);
        }
        // vh sess-replay <tlc-output> <report.json>
        "sess-replay" => {
            let text = read_input(&args[2]);
            sessrows::replay_rows(&text, &mut rep);
            std::fs::write(&args[3], serde_json::to_string(&rep.to_json()).unwrap()).unwrap();
        }
        // vh sess-record <driver> <seed> <n> <out.ndjson> <report.json> [input] [trace] [warn]
        "sess-record" => {
            let flags: Vec<&str> = args[7..].iter().map(|s| s.as_str()).collect();
            let (seed, n, out) = (args[3].parse().unwrap(), args[4].parse().unwrap(), args[5].as_str());
            match args[2].as_str() {
                "progs" => sessrec::record_programs(seed, n, out, flags.contains(&"input"), flags.contains(&"trace"), flags.contains(&"warn"), flags.contains(&"breaks"), &mut rep),
                "breakcont" => sessrec::record_breakcont(seed, n, out, &mut rep),
                "flags4" => sessrec::record_flags4(seed, n, out, &mut rep),
                "stopassign" => sessrec::record_stopassign(seed, n, out, &mut rep),
                "runfresh" => sessrec::record_runfresh(seed, n, out, &mut rep),
                "cycles" => sessrec::record_cycles(seed, n, out, flags.contains(&"warn"), &mut rep),
                "inputassign" => sessrec::record_inputassign(seed, n, out, &mut rep),
                "editprobe" => sessrec::record_editprobe(seed, n, out, &mut rep),
                "fuzz" => sessrec::record_fuzz(seed, n, out, &mut rep),
                "boundary" => sessrec::record_boundary(seed, n as u64, out, &mut rep),   // seed = shard index, n = number of shards
                other => { eprintln!("unknown driver {}", other); std::process::exit(2); }
            }
            std::fs::write(&args[6], serde_json::to_string(&rep.to_json()).unwrap()).unwrap();
        }
        _ => {
            eprintln!("usage: vh <lex-replay> ...");
            std::process::exit(2);
        }
    }
}
