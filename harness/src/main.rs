mod lexrec;
mod lexrows;
mod model;
mod progs;
mod report;
mod session;
mod sessrec;

use report::Report;
use std::io::Read;

fn read_input(path: &str) -> String {
    let mut s = String::new();
    if path == "-" {
        std::io::stdin().read_to_string(&mut s).unwrap();
    } else {
        s = String::from_utf8_lossy(&std::fs::read(path).expect("read input")).into_owned();
    }
    s
}

fn main() {
    // Panics in the code under test are data: the hook is silenced, drivers catch_unwind.
    std::panic::set_hook(Box::new(|_| {}));
    let args: Vec<String> = std::env::args().collect();
    let cmd = args.get(1).map(|s| s.as_str()).unwrap_or("");
    let mut rep = Report::default();
    match cmd {
        // vh lex-replay <tlc-output> <report.json>
        "lex-replay" => {
            let text = read_input(&args[2]);
            lexrows::replay_rows(&text, &mut rep);
            std::fs::write(&args[3], serde_json::to_string(&rep.to_json()).unwrap()).unwrap();
        }
        // vh lex-record <seed> <n> <out.ndjson>
        "lex-record" => {
            lexrec::record(args[2].parse().unwrap(), args[3].parse().unwrap(), &args[4]);
        }
        // vh sess-record progs <seed> <n> <out.ndjson> [input] [trace] [warn]
        "sess-record" => {
            let flags: Vec<&str> = args[6..].iter().map(|s| s.as_str()).collect();
            match args[2].as_str() {
                "progs" => sessrec::record_programs(args[3].parse().unwrap(), args[4].parse().unwrap(), &args[5],
                    flags.contains(&"input"), flags.contains(&"trace"), flags.contains(&"warn")),
                other => { eprintln!("unknown driver {}", other); std::process::exit(2); }
            }
        }
        _ => {
            eprintln!("usage: vh <lex-replay> ...");
            std::process::exit(2);
        }
    }
}
