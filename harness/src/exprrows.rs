//! Spec -> implementation for C02: each row of MC_Expr is an expression in two
//! renderings (minimal / redundant parentheses) with the value its syntax tree
//! folds to; `PRINT <expr>` on the real interpreter must agree.
use crate::model::*;
use crate::report::Report;
use crate::session::*;
use serde_json::{json, Value as J};

fn run_print(expr: &str) -> (String, String, bool) {
    // returns (printed text, error kind, panicked)
    let mut s = Sess::new(false, false);
    for l in ["X = 2.5", "S$ = \"B\"", "QN = -8 ^ .5", "QP = 0 ^ -1", "QM = -QP", "1 DATA 5", "READ R5$"] {
        s.apply(&call_submit(l));
    }
    let ev = s.apply(&call_submit(&format!("PRINT {}", expr)));
    if ev["panic"] == true {
        return (String::new(), String::new(), true);
    }
    let mut text = String::new();
    for o in ev["out"].as_array().into_iter().flatten() {
        if o["t"] == "print" {
            text.push_str(&text_of(&o["text"]));
        }
    }
    let kind = if ev["res"]["ok"] == true { String::new() } else { ev["res"]["kind"].as_str().unwrap_or("").to_string() };
    (text, kind, false)
}

pub fn replay_rows(tlc_out: &str, rep: &mut Report) {
    for payload in tlc_rows(tlc_out, "ROW") {
        let Ok(row) = serde_json::from_str::<J>(&payload) else {
            rep.count("rows_unparsable");
            continue;
        };
        rep.count("rows");
        rep.ctx = Some(json!({"sub": "expr-replay", "row": payload}));
        let min = text_of(&row["min"]);
        let red = text_of(&row["red"]);
        let (t1, e1, p1) = run_print(&min);
        let (t2, e2, p2) = run_print(&red);
        rep.sample(json!({"expr": min, "redundant": red, "model_error": row["e"], "model_text": text_of(&row["text"])}));
        if p1 || p2 {
            rep.violation("C02", "panic", json!({}), json!({"expr": min, "redundant": red}));
            continue;
        }
        // oracle-free half: redundant parentheses never change a result
        if t1 != t2 || e1 != e2 {
            rep.violation("C02", "parentheses_change_result", json!({"min_err": e1, "red_err": e2}),
                json!({"expr": min, "redundant": red, "observed_min": [t1, e1], "observed_red": [t2, e2]}));
            continue;
        }
        if row["known"] == true {
            rep.count("rows_predicted");
            let me = row["e"].as_str().unwrap_or("");
            let mt = text_of(&row["text"]);
            if me != e1 || (me.is_empty() && mt != t1) {
                rep.violation("C02", "value_differs_from_fold",
                    json!({"model_err": me, "real_err": e1}),
                    json!({"expr": min, "redundant": red, "expected": {"err": me, "text": mt}, "observed": {"err": e1, "text": t1}}));
            } else if me.is_empty() {
                rep.count("rows_nontrivial");
            }
        } else {
            rep.count("rows_inexact_oracle_free_only");
        }
    }
}
