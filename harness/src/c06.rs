//! C06: the static checker and the interpreter agree on what is an error.
use crate::analyzer::analyze;
use crate::model::*;
use crate::report::Report;
use crate::session::*;
use serde_json::{json, Value as J};

pub fn is_bad(kind: &str) -> bool {
    kind.starts_with("syntax") || kind == "type_mismatch" || kind == "undefined_statement"
}

pub struct RunOutcome {
    pub ok: bool,
    pub kind: String,
    pub panicked: bool,
    /// everything the program printed, in order
    pub printed: String,
    /// the line an error was reported in ("" for none / the immediate line)
    pub err_line: String,
}

/// Run a program text (lines) to idle with the given replies.
pub fn run_text_full(lines: &[String], replies: &[&str], seed: u64, budget: usize) -> RunOutcome {
    let mut s = Sess::new(false, false);
    let mut o = RunOutcome { ok: false, kind: String::new(), panicked: false, printed: String::new(), err_line: String::new() };
    s.apply(&call_randomize(seed));
    for l in lines {
        let ev = s.apply(&call_submit(l));
        if ev["panic"] == true {
            o.panicked = true;
            return o;
        }
    }
    let mut ev = s.apply(&call_submit("RUN"));
    let mut n = 0;
    let mut ri = 0;
    loop {
        if ev["panic"] == true {
            o.panicked = true;
            return o;
        }
        for x in ev["out"].as_array().into_iter().flatten() {
            if x["t"] == "print" {
                o.printed.push_str(&text_of(&x["text"]));
            }
        }
        if ev["res"]["ok"] == false {
            o.kind = ev["res"]["kind"].as_str().unwrap_or("").to_string();
            if ev["res"]["hl"] == true {
                o.err_line = text_of(&ev["res"]["line"]);
            }
            return o;
        }
        n += 1;
        if n > budget {
            o.ok = true;
            return o;
        }
        match s.mode() {
            "running" => ev = s.apply(&call_simple("continue")),
            "awaiting" => {
                let r = replies.get(ri % replies.len().max(1)).copied().unwrap_or("1");
                ri += 1;
                ev = s.apply(&call_provide(r));
            }
            "idle" if ev["snap"]["bp"]["some"] == true => ev = s.apply(&call_submit("CONT")),     // a STOP is resumed with CONT
            _ => {
                o.ok = true;
                return o;
            }
        }
    }
}

/// (ok, error kind, panicked)
pub fn run_text(lines: &[String], replies: &[&str], seed: u64, budget: usize) -> (bool, String, bool) {
    let o = run_text_full(lines, replies, seed, budget);
    (o.ok, o.kind, o.panicked)
}

pub fn replay_rows(tlc_out: &str, rep: &mut Report) {
    for payload in tlc_rows(tlc_out, "ROW") {
        let Ok(row) = serde_json::from_str::<J>(&payload) else { continue };
        rep.count("rows");
        rep.ctx = Some(json!({"sub": "c06-replay", "row": payload}));
        let text = text_of(&row["text"]);
        let an = analyze(&text);
        let run = run_text_full(&[text.clone()], &["1"], 1, 200);
        let (ok, kind, panicked) = (run.ok, run.kind.clone(), run.panicked);
        rep.sample(json!({"line": text, "model_checker_error": row["aerr"], "model_run": [row["run_ok"], row["run_kind"]]}));
        if an.panicked.is_some() || panicked {
            rep.violation("C06", "panic", json!({"analyzer": an.panicked.is_some()}), json!({"line": text}));
            continue;
        }
        let aerr = an.error_kinds.first().map(|e| e.1.clone()).unwrap_or_default();
        // M_C06 on the two real components (rows are straight-line unless they say otherwise)
        if !aerr.is_empty() && ok && row["straight"] != false {
            rep.violation("C06", "valid_statement_rejected", json!({"checker_error": aerr}), json!({"line": text, "checker_error": aerr, "run": "ok"}));
        }
        if aerr.is_empty() && !ok && is_bad(&kind) {
            rep.violation("C06", "accepted_program_fails", json!({"run_error": kind}), json!({"line": text, "run_error": kind}));
        }
        // pi: each side against its model
        if row["aerr"].as_str().unwrap_or("") != aerr && row["aerr"] != "unknown" {
            rep.violation("C06", "checker_differs_from_model", json!({"model": row["aerr"], "real": aerr}), json!({"line": text}));
        }
        if row["run_kind"] != "unknown" && (row["run_ok"] != ok || row["run_kind"].as_str().unwrap_or("") != kind) {
            rep.violation("C06", "run_differs_from_model", json!({"model": row["run_kind"], "real": kind}), json!({"line": text}));
        }
        // C03 on the same one-line programs: exactly the printed output and, on failure, the line
        if row["out_known"] == true {
            rep.count("outputs_compared");
            let model_out = from_bytes(&row["out"]);
            let model_line = text_of(&row["err_line"]);
            if model_out != run.printed.as_bytes() || (!ok && row["run_ok"] == false && model_line != run.err_line) {
                let what = if model_out != run.printed.as_bytes() { "printed" } else { "error_line" };
                rep.violation("C03", "output_differs_from_model", json!({"what": what}),
                    json!({"line": text, "model_printed": text_of(&row["out"]), "real_printed": run.printed, "model_error_line": model_line, "real_error_line": run.err_line}));
            }
        }
        if !aerr.is_empty() || !ok {
            rep.count("rows_nontrivial");
        }
    }
}

/// Forward direction on generated multi-line programs: if the checker accepts, no run
/// (several reply scripts and seeds, to force different branches) fails with a
/// syntax error, a type mismatch or a jump to an undefined line.
pub fn forward_programs(seed: u64, n: usize, rep: &mut Report) {
    use rand::rngs::StdRng;
    use rand::SeedableRng;
    for i in 0..n as u64 {
        let mut rng = StdRng::seed_from_u64(seed.wrapping_mul(1_000_003).wrapping_add(i));
        let lines = {
            let mut g = crate::progs::Gen::new(&mut rng);
            g.with_input = true;
            g.fail_rate = 0.02;
            g.program()
        };
        let text = lines.join("\n");
        let an = analyze(&text);
        rep.count("programs");
        if an.panicked.is_some() {
            rep.violation("C06", "panic", json!({"analyzer": true}), json!({"program": lines}));
            continue;
        }
        if an.has_errors {
            rep.count("programs_rejected_by_checker");
            continue;
        }
        rep.count("programs_accepted_by_checker");
        for (k, replies) in [vec!["1"], vec!["0"], vec!["abc", "5"], vec!["-2", "7", "0"], vec!["", "1"]].iter().enumerate() {
            let (ok, kind, panicked) = run_text(&lines, replies, 17 + k as u64, 3000);
            rep.count("runs");
            if panicked {
                rep.violation("C06", "panic", json!({"analyzer": false}), json!({"program": lines, "replies": replies}));
            } else if !ok && is_bad(&kind) {
                rep.violation("C06", "accepted_program_fails", json!({"run_error": kind}), json!({"program": lines, "replies": replies, "run_error": kind}));
            }
        }
        rep.sample(json!({"program": lines}));
    }
}
