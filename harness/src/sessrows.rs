//! Spec -> implementation for host sessions: every transition TLC explored in
//! an MC_Session instance is printed as a row (path of calls to the source
//! state, the call, the model's predicted result / outputs / state).  Each row
//! is replayed on a fresh real interpreter and the last call's observation is
//! compared with the prediction (MongoDB-style: one test per transition).
use crate::model::*;
use crate::report::Report;
use crate::session::*;
use serde_json::{json, Value as J};

pub fn call_text(c: &J) -> String {
    match c["k"].as_str().unwrap_or("") {
        "submit" => format!("submit {:?}", text_of(&c["text"])),
        "provide" => format!("provide {:?}", text_of(&c["text"])),
        "randomize" => format!("randomize {}", text_of(&c["seed"])),
        k => k.to_string(),
    }
}

/// Monitors that need no model (evaluated on every observation the harness makes).
pub fn monitors(ev: &J) -> Vec<(&'static str, &'static str, J)> {
    let mut v = vec![];
    if ev["panic"] == true {
        v.push(("C01", "panic", json!({"message": ev["panic_msg"]})));
        return v;
    }
    if ev["res"]["ok"] == false {
        if ev["snap"]["mode"] != "idle" {
            v.push(("C01", "error_without_idle", json!({"kind": ev["res"]["kind"]})));
        }
        if ev["caret_ok"] == false {
            v.push(("C01", "caret_rendering_panicked", json!({"kind": ev["res"]["kind"]})));
        }
    }
    // C09: for programs that call no user-defined function, the work of one call is bounded by
    // line length (12 token reads per token of the longest line; measured maximum on the unchanged tree: 5)
    if let (Some(reads), Some(lt)) = (ev["work"]["reads"].as_u64(), ev["work"]["line_tokens"].as_u64()) {
        if ev["work"]["functions"] == false && reads > 12 * (lt + 1) {
            v.push(("C09", "work_exceeds_line_bound", json!({"call": ev["c"]["k"]})));
        }
    }
    let s = &ev["snap"];
    if s["keys"] != s["keys_map"] {
        v.push(("C04", "line_indexes_disagree", json!({})));
    }
    // C16: caps and name-suffix typing
    let stack = s["stack"].as_array().map(|a| a.len()).unwrap_or(0);
    let loops = s["loops"].as_array().cloned().unwrap_or_default();
    if stack > 32 {
        v.push(("C16", "stack_over_cap", json!({"depth": stack})));
    }
    if loops.len() > 32 {
        v.push(("C16", "loops_over_cap", json!({"depth": loops.len()})));
    }
    for i in 0..loops.len() {
        for j in 0..i {
            if loops[i]["sym"] == loops[j]["sym"] {
                v.push(("C16", "duplicate_loop_variable", json!({})));
            }
        }
    }
    let kind_ok = |name: &J, val: &J| -> bool {
        let n = from_bytes(name);
        (n.last() == Some(&b'$')) == (val["t"] == "s")
    };
    for p in s["vars"].as_array().into_iter().flatten() {
        if !kind_ok(&p["k"], &p["v"]) {
            v.push(("C16", "variable_kind_mismatch", json!({"name": text_of(&p["k"])})));
        }
    }
    for f in s["stack"].as_array().into_iter().flatten() {
        for p in f["binds"].as_array().into_iter().flatten() {
            if !kind_ok(&p["k"], &p["v"]) {
                v.push(("C16", "parameter_kind_mismatch", json!({"name": text_of(&p["k"])})));
            }
        }
    }
    for a in s["arrays"].as_array().into_iter().flatten() {
        let prod: u64 = a["dims"].as_array().map(|d| d.iter().map(|x| x.as_u64().unwrap_or(0)).product()).unwrap_or(0);
        if a["ncells"].as_u64() != Some(prod) || prod > 10000 {
            v.push(("C16", "array_shape_violation", json!({"name": text_of(&a["k"]), "cells": a["ncells"], "product": prod})));
        }
        if (from_bytes(&a["k"]).last() == Some(&b'$')) != (a["str"] == true) {
            v.push(("C16", "array_kind_mismatch", json!({"name": text_of(&a["k"])})));
        }
    }
    v
}

pub fn replay_rows(tlc_out: &str, rep: &mut Report) {
    let rows: Vec<String> = tlc_rows(tlc_out, "ROW").collect();
    let threads = std::thread::available_parallelism().map(|n| n.get()).unwrap_or(4).min(14);
    let chunk = (rows.len() + threads - 1) / threads.max(1);
    let parts: Vec<Report> = std::thread::scope(|sc| {
        let handles: Vec<_> = rows
            .chunks(chunk.max(1))
            .map(|part| {
                sc.spawn(move || {
                    let mut r = Report::default();
                    replay_some(part, &mut r);
                    r
                })
            })
            .collect();
        handles.into_iter().map(|h| h.join().expect("replay thread")).collect()
    });
    for p in parts {
        rep.merge(p);
    }
}

fn replay_some(rows: &[String], rep: &mut Report) {
    for payload in rows {
        let payload = payload.clone();
        rep.ctx = Some(json!({"sub": "sess-replay", "row": payload}));
        let Ok(row) = serde_json::from_str::<J>(&payload) else {
            rep.count("rows_unparsable");
            continue;
        };
        rep.count("rows");
        let path = row["path"].as_array().cloned().unwrap_or_default();
        let mut s = Sess::new(row["trace"] == true, row["warn"] == true);
        let mut last = J::Null;
        let mut aborted = false;
        for l in row["start"]["lines"].as_array().into_iter().flatten() {
            s.apply(&json!({"k": "submit", "text": l, "seed": []}));
        }
        for (i, c) in path.iter().enumerate() {
            if s.dead || !s.legal(c["k"].as_str().unwrap_or("")) {
                // the implementation is not in the mode the model expects: an earlier row reports the difference
                rep.count("rows_path_not_replayable");
                aborted = true;
                break;
            }
            last = s.apply(c);
            if i + 1 == path.len() {
                rep.count(&format!("calls_{}", c["k"].as_str().unwrap_or("")));
            }
        }
        if aborted {
            continue;
        }
        let path_text: Vec<String> = path.iter().map(call_text).collect();
        rep.sample(json!({"start": row["start"]["name"], "calls": path_text, "predicted_result": row["pred"]["res"], "predicted_mode": row["pred"]["snap"]["mode"]}));
        for (prop, class, feat) in monitors(&last) {
            rep.violation(prop, class, feat, json!({"start": row["start"], "calls": path_text, "path": path, "trace": row["trace"], "warn": row["warn"], "observed": last}));
        }
        if last["panic"] == true {
            continue;
        }
        let d = diff(&row["pred"], &last);
        if !d.is_empty() {
            rep.violation("SESSION", "observation_differs_from_model", json!({"fields": d}),
                json!({"start": row["start"], "calls": path_text, "path": path, "trace": row["trace"], "warn": row["warn"],
                       "expected": row["pred"], "observed": {"res": last["res"], "out": last["out"], "snap": last["snap"]}}));
        } else if row["pred"]["res"]["ok"] == false || !row["pred"]["out"].as_array().map(|a| a.is_empty()).unwrap_or(true) {
            rep.count("rows_nontrivial");
        }
    }
}
