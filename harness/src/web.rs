//! C19: the real JsInterpreter (built natively) driven through a
//! transliteration of the page script's handlers (abasic-web/ts/main.ts),
//! side by side with a plain core Interpreter fed the same calls.
use crate::model::*;
use crate::report::Report;
use abasic_core::{Interpreter, InterpreterOutput, InterpreterState};
use abasic_web::{JsInterpreter, JsInterpreterOutputType, JsInterpreterState};
use serde_json::{json, Value as J};
use std::panic::{catch_unwind, AssertUnwindSafe};

#[derive(Clone, Copy)]
pub struct Facts {
    pub loader_checks_error: bool,
    pub loader_skips_blank: bool,
    pub loader_skips_unnumbered: bool,
}

fn state_name(s: JsInterpreterState) -> &'static str {
    match s {
        JsInterpreterState::Idle => "idle",
        JsInterpreterState::Running => "running",
        JsInterpreterState::AwaitingInput => "awaiting",
        JsInterpreterState::Errored => "errored",
    }
}

fn out_type_name(t: JsInterpreterOutputType) -> &'static str {
    match t {
        JsInterpreterOutputType::Print => "print",
        JsInterpreterOutputType::Break => "break",
        JsInterpreterOutputType::Warning => "warning",
        JsInterpreterOutputType::Trace => "trace",
        JsInterpreterOutputType::ExtraIgnored => "extra",
        JsInterpreterOutputType::Reenter => "reenter",
    }
}

fn core_out(o: &InterpreterOutput) -> (&'static str, String) {
    let t = match o {
        InterpreterOutput::Print(_) => "print",
        InterpreterOutput::Break(_) => "break",
        InterpreterOutput::Warning(_, _) => "warning",
        InterpreterOutput::Trace(_) => "trace",
        InterpreterOutput::ExtraIgnored => "extra",
        InterpreterOutput::Reenter => "reenter",
    };
    (t, o.to_string())
}

/// The page: adapter + mirror core + what the user has been shown.
pub struct Page {
    pub facts: Facts,
    pub imp: JsInterpreter,
    pub core: Interpreter,
    core_latch: Option<String>,
    /// outputs the core produced before it was replaced (NEW) and that nobody has taken yet
    core_orphan: Vec<(&'static str, String)>,
    pub full: bool,
    pub timers: u32,
    pub input_on: bool,
    pub shown: Vec<J>,
    pub trap: Option<String>,
    pub unfaithful: Vec<String>,
}

fn digits_after_in(s: &str) -> J {
    if let Some(p) = s.find(" IN ") {
        let d: String = s[p + 4..].chars().take_while(|c| c.is_ascii_digit()).collect();
        if !d.is_empty() {
            return bytes(&d);
        }
    }
    json!([])
}

impl Page {
    pub fn new(facts: Facts) -> Self {
        // the page seeds the generator once, when it is created (main.ts: randomize(Date.now())); a fixed seed stands in
        let mut imp = JsInterpreter::new();
        imp.randomize(987_654_321);
        let mut core = Interpreter::default();
        core.randomize(987_654_321);
        Page { facts, imp, core, core_latch: None, core_orphan: vec![], full: true, timers: 0, input_on: true,
               shown: vec![], trap: None, unfaithful: vec![] }
    }

    fn guard<T>(&mut self, f: impl FnOnce(&mut Self) -> T) -> Option<T> {
        if self.trap.is_some() {
            return None;
        }
        crate::session::IN_SUT.with(|x| x.set(true));
        let r = catch_unwind(AssertUnwindSafe(|| f(self)));
        crate::session::IN_SUT.with(|x| x.set(false));
        match r {
            Ok(v) => Some(v),
            Err(p) => {
                let msg = p.downcast_ref::<String>().cloned().or_else(|| p.downcast_ref::<&str>().map(|s| s.to_string())).unwrap_or_default();
                self.trap = Some(msg);
                None
            }
        }
    }

    // ---- adapter calls, mirrored on the core interpreter
    fn start_evaluating(&mut self, line: &str) {
        let l = line.to_string();
        self.guard(|p| p.imp.start_evaluating(l.clone()));
        if self.trap.is_none() && self.core_latch.is_none() && self.core.get_state() == InterpreterState::Idle {
            if let Err(err) = self.core.start_evaluating(line) {
                let mut lines = vec![err.to_string()];
                lines.extend(err.get_line_with_pointer_caret(&self.core, Some(line)));
                self.core_latch = Some(lines.join("\n"));
            } else if self.core.get_state() == InterpreterState::NewInterpreterRequested {
                // "exactly what the core interpreter produces for the same calls": what the old
                // interpreter produced is still owed to the page
                let owed: Vec<(&'static str, String)> = self.core.take_output().iter().map(core_out).collect();
                self.core_orphan.extend(owed);
                self.core = Interpreter::default();
            }
        }
    }
    fn continue_evaluating(&mut self) {
        self.guard(|p| p.imp.continue_evaluating());
        if self.trap.is_none() && self.core_latch.is_none() && self.core.get_state() == InterpreterState::Running {
            if let Err(err) = self.core.continue_evaluating() {
                self.core_latch = Some(err.to_string());
            }
        }
    }
    fn provide_input(&mut self, text: &str) {
        let t = text.to_string();
        self.guard(|p| p.imp.provide_input(t.clone()));
        if self.trap.is_none() && self.core.get_state() == InterpreterState::AwaitingInput {
            self.core.provide_input(text.to_string());
        }
    }
    fn break_now(&mut self) {
        self.guard(|p| p.imp.break_at_current_location());
        if self.trap.is_none() {
            self.core.break_at_current_location();
        }
    }
    pub fn get_state(&mut self) -> &'static str {
        match self.guard(|p| p.imp.get_state()) {
            Some(s) => {
                let name = state_name(s);
                // Faithful: the adapter's state is the core's (Errored while an error is latched)
                let expect = if self.core_latch.is_some() { "errored" } else { crate::session::mode_name(self.core.get_state()) };
                if name != expect {
                    self.unfaithful.push(format!("state {} but the core says {}", name, expect));
                }
                name
            }
            None => "trapped",
        }
    }

    fn show_output(&mut self) {
        let Some(outs) = self.guard(|p| p.imp.take_latest_output()) else { return };
        let core_outs = self.core.take_output();
        let real: Vec<(&'static str, String)> = outs.into_iter().map(|o| (out_type_name(o.output_type), o.into_string())).collect();
        let mut expect: Vec<(&'static str, String)> = std::mem::take(&mut self.core_orphan);
        expect.extend(core_outs.iter().map(core_out));
        if real != expect {
            self.unfaithful.push(format!("outputs {:?} but the core produced {:?}", real, expect));
        }
        for (t, s) in real {
            let rec = match t {
                "print" => json!({"t": "print", "text": bytes(&s), "line": [], "what": ""}),
                "trace" => json!({"t": "trace", "text": [], "line": bytes(s.trim_start_matches('#')), "what": ""}),
                "break" => json!({"t": "break", "text": [], "line": digits_after_in(&s), "what": ""}),
                "warning" => json!({"t": "warning", "text": [], "line": digits_after_in(s.split(": ").next().unwrap_or("")),
                                    "what": if s.contains("undeclared variable") { "var" } else if s.contains("undeclared array") { "array" } else { "other" }}),
                other => json!({"t": other, "text": [], "line": [], "what": ""}),
            };
            self.shown.push(rec);
        }
    }

    // ---- the page's handlers
    pub fn handle_current_state(&mut self) {
        let mut fuel = 50;
        loop {
            self.show_output();
            if self.trap.is_some() {
                return;
            }
            match self.get_state() {
                "idle" => {
                    if !self.full {
                        self.input_on = false;
                    }
                    return;
                }
                "awaiting" => return,
                "errored" => {
                    let err = self.guard(|p| p.imp.take_latest_error()).flatten();
                    let expect = self.core_latch.take();
                    if err != expect {
                        self.unfaithful.push(format!("error text {:?} but the core's is {:?}", err, expect));
                    }
                    let Some(text) = err else {
                        self.trap = Some("take_latest_error() returned undefined".to_string());
                        return;
                    };
                    let first = text.lines().next().unwrap_or("");
                    let kind = crate::cli::error_kind_of_text(first);
                    let caret: Vec<&str> = text.lines().skip(1).collect();
                    self.shown.push(json!({"t": "error", "text": bytes(&caret.join("\n")), "line": digits_after_in(first), "what": kind}));
                    fuel -= 1;
                    if fuel == 0 {
                        return;
                    }
                }
                "running" => {
                    self.continue_evaluating();
                    self.timers += 1;
                    return;
                }
                _ => return,
            }
        }
    }

    pub fn load(&mut self, source: &str) {
        self.full = false;
        let mut completed = true;
        for line in source.split('\n') {
            if self.facts.loader_skips_blank && line.trim().is_empty() {
                continue;
            }
            if self.facts.loader_skips_unnumbered && !line.chars().next().map(|c| c.is_ascii_digit()).unwrap_or(false) {
                continue;
            }
            self.start_evaluating(line);
            if self.facts.loader_checks_error && self.trap.is_none() && self.get_state() == "errored" {
                completed = false;
                break;
            }
        }
        if completed {
            self.start_evaluating("RUN");
        }
        self.handle_current_state();
    }

    pub fn can_submit(&mut self) -> bool {
        self.trap.is_none() && self.input_on && matches!(self.get_state(), "idle" | "awaiting")
    }
    pub fn submit(&mut self, text: &str) {
        match self.get_state() {
            "idle" => self.start_evaluating(text),
            "awaiting" => self.provide_input(text),
            _ => return,
        }
        self.handle_current_state();
    }
    pub fn can_break(&mut self) -> bool {
        self.trap.is_none() && matches!(self.get_state(), "awaiting" | "running")
    }
    pub fn do_break(&mut self) {
        self.full = true;
        self.input_on = true;
        self.break_now();
        self.handle_current_state();
    }
    pub fn tick(&mut self) {
        if self.timers > 0 {
            self.timers -= 1;
            self.handle_current_state();
        }
    }

    pub fn apply(&mut self, ev: &J) -> bool {
        let text = text_of(&ev["text"]);
        match ev["k"].as_str().unwrap_or("") {
            "load" => self.load(&text),
            "start" => self.handle_current_state(),
            "submit" => {
                if !self.can_submit() { return false; }
                self.submit(&text)
            }
            "break" => {
                if !self.can_break() { return false; }
                self.do_break()
            }
            "tick" => {
                if self.timers == 0 || self.trap.is_some() { return false; }
                self.tick()
            }
            _ => return false,
        }
        true
    }

    pub fn display(&mut self) -> J {
        let state = if self.trap.is_some() { "trapped" } else { self.get_state() };
        json!({"shown": self.shown, "state": state, "trap": self.trap.clone().unwrap_or_default(), "timers": self.timers, "input_on": self.input_on, "full": self.full})
    }
}

pub fn replay_rows(tlc_out: &str, facts: Facts, rep: &mut Report) {
    for payload in tlc_rows(tlc_out, "ROW") {
        let Ok(row) = serde_json::from_str::<J>(&payload) else { continue };
        rep.count("rows");
        rep.ctx = Some(json!({"sub": "web-replay", "row": payload}));
        let events = row["events"].as_array().cloned().unwrap_or_default();
        let mut page = Page::new(facts);
        let mut applicable = true;
        for e in &events {
            if !page.apply(e) {
                applicable = false;
                break;
            }
        }
        let names: Vec<String> = events.iter().map(|e| format!("{} {:?}", e["k"].as_str().unwrap_or(""), text_of(&e["text"]))).collect();
        rep.sample(json!({"events": names, "predicted_state": row["pred"]["state"]}));
        let d = page.display();
        if let Some(t) = &page.trap {
            rep.violation("C19", "adapter_trapped", json!({"assertion": if t.contains("latest_error") { "latest_error_is_none" } else if t.contains("never be in this state") { "new_interpreter_state" } else { "other" }}),
                json!({"events": names, "raw_events": events, "panic": t}));
            continue;
        }
        if !page.unfaithful.is_empty() {
            rep.violation("C19", "adapter_differs_from_core", json!({}), json!({"events": names, "raw_events": events, "differences": page.unfaithful}));
            continue;
        }
        if !applicable {
            rep.violation("C19", "page_protocol_differs_from_model", json!({"what": "event_not_enabled"}), json!({"events": names, "raw_events": events}));
            continue;
        }
        let p = &row["pred"];
        let shown_ok = p["shown"].as_array().map(|a| a.len()) == d["shown"].as_array().map(|a| a.len())
            && p["shown"].as_array().unwrap().iter().zip(d["shown"].as_array().unwrap()).all(|(m, r)| {
                m["t"] == r["t"] && m["line"] == r["line"] && (!(m["t"] == "print" || m["t"] == "error") || m["unk"] == true || m["text"] == r["text"])
                    && (!(m["t"] == "error" || m["t"] == "warning") || m["what"] == r["what"])
            });
        if !shown_ok || p["state"] != d["state"] || p["timers"] != d["timers"] || p["input_on"] != d["input_on"] {
            let what = if !shown_ok { "shown" } else if p["state"] != d["state"] { "state" } else { "timers_or_input" };
            rep.violation("C19", "page_differs_from_model", json!({"what": what}), json!({"events": names, "raw_events": events, "expected": p, "observed": d}));
        } else if !d["shown"].as_array().unwrap().is_empty() {
            rep.count("rows_nontrivial");
        }
    }
}

/// Implementation -> spec: random page event sequences; the observed display after every
/// event is written for Trace_Web.
pub fn record(seed: u64, n: usize, facts: Facts, out: &str, rep: &mut Report) {
    use rand::rngs::StdRng;
    use rand::{Rng, SeedableRng};
    use std::io::Write;
    const PROGRAMS: &[&str] = &[
        "10 PRINT \"HI\"\n20 X=X+1:PRINT X", "10 PRINT 1\n20 C% = 1\n30 PRINT 3", "10 PRINT 1\n20 PRINT 1/0", "10 INPUT A\n20 PRINT A*2",
        "10 I=I+1\n20 GOTO 10", "", "REM x\n\n10 STOP:PRINT \"S\"", "10 FOR I=1 TO 3:PRINT I:NEXT I\n20 INPUT B$\n30 PRINT B$;B$",
        "10 GOSUB 100\n20 END\n100 PRINT \"é\":RETURN", "10 PRINT \"unterminated\n20 PRINT 2", "5 DIM A(2)\n10 A(3)=1",
    ];
    const TEXTS: &[&str] = &["NEW", "RUN", "CONT", "15 PRINT 7", "PRINT 1/0", "5", "abc", "\"", "PRINT 2:PRINT 3", "LIST", "TRACE", "10", "X=1:STOP:PRINT X", "1,2", "GOTO 10", "INPUT Q", "", "   ", "STATS", "STATS", "PRINT INT(RND(1)*1000)", "PRINT RND(0)", "A$=\"abcdefghijk\"+\"lmnop\":PRINT A$",
                             "  \"", " X = 1..2", "   PRINT 1 ~ 2", "\tPRINT \"a", "  10 PRINT ~", "  PRINT 1/0", " 20 PRINT \"é\" ~"];
    let mut f = std::io::BufWriter::new(std::fs::File::create(out).expect("create trace"));
    for i in 0..n as u64 {
        let mut rng = StdRng::seed_from_u64(seed ^ (i << 18) ^ 0xC19);
        let mut page = Page::new(facts);
        let mut events: Vec<J> = vec![];
        // one session in thirty loads a program of several hundred lines (LIST then yields hundreds of records in one call)
        let big = rng.gen_bool(0.03);
        let first = if big {
            let n_lines = rng.gen_range(257..=420);
            let prog: Vec<String> = (1..=n_lines).map(|k| if k == n_lines { format!("{} END", k * 10) } else { format!("{} X=X+{}", k * 10, k % 7) }).collect();
            json!({"k": "load", "text": bytes(&prog.join("\n"))})
        } else if rng.gen_bool(0.7) { json!({"k": "load", "text": bytes(PROGRAMS[rng.gen_range(0..PROGRAMS.len())])}) } else { json!({"k": "start", "text": []}) };
        let mut evs = vec![first];
        if big {
            evs.push(json!({"k": "break", "text": []}));
            evs.push(json!({"k": "submit", "text": bytes("LIST")}));
            evs.push(json!({"k": "submit", "text": bytes("PRINT X")}));
        }
        let len = if big { 3 } else { rng.gen_range(2..25) };
        for _ in 0..len {
            evs.push(match rng.gen_range(0..10) {
                0..=3 => json!({"k": "tick", "text": []}),
                4..=7 => json!({"k": "submit", "text": bytes(TEXTS[rng.gen_range(0..TEXTS.len())])}),
                _ => json!({"k": "break", "text": []}),
            });
        }
        for (j, e) in evs.iter().enumerate() {
            if !page.apply(e) {
                continue; // not enabled in the page's current state: the user cannot do it
            }
            events.push(e.clone());
            let d = page.display();
            if big {
                // sessions with a several-hundred-line program are judged by the adapter-vs-core comparison only:
                // evaluating them in TLC costs minutes per event
                rep.count("events_big_program_not_judged_by_model");
            } else {
                writeln!(f, "{}", json!({"run": i, "first": j == 0, "e": e, "obs": d, "unfaithful": page.unfaithful.len()})).unwrap();
            }
            rep.count("events");
            if page.trap.is_some() {
                let names: Vec<String> = events.iter().map(|e| format!("{} {:?}", e["k"].as_str().unwrap_or(""), text_of(&e["text"]))).collect();
                rep.violation("C19", "adapter_trapped", json!({"assertion": if page.trap.as_ref().unwrap().contains("latest_error") { "latest_error_is_none" } else { "other" }}),
                    json!({"events": names, "raw_events": events, "panic": page.trap}));
                break;
            }
        }
        if !page.unfaithful.is_empty() {
            rep.violation("C19", "adapter_differs_from_core", json!({}), json!({"raw_events": events, "differences": page.unfaithful}));
        }
        rep.count("sessions");
    }
}
