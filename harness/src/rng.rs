//! C18: the random number generator.  Rows of MC_Rng replayed through
//! verif::rng_rnd, through `PRINT RND(x)` on the core interpreter and on the
//! Web adapter (same seed => same text on every front end); and a recorder of
//! single RND calls from boundary and random states for Trace_Rng.
use crate::model::*;
use crate::report::Report;
use abasic_core::verif;
use abasic_core::{Interpreter, InterpreterOutput};
use rand::rngs::StdRng;
use rand::{Rng, SeedableRng};
use serde_json::{json, Value as J};
use std::io::Write;

const TWO33: f64 = 8589934592.0;

/// The named arguments of Rng.tla (ArgNames): value, and a BASIC expression with that value.
fn arg_of(sign: &str) -> f64 {
    match sign {
        "pos" => 1.0,
        "zero" => 0.0,
        "neg" => -1.0,
        "half" => 0.5,
        "neghalf" => -0.5,
        "negzero" => -0.0,
        "tiny" => 1.0 / 1048576.0,
        "big" => 1000000.0,
        "threehalves" => 1.5,
        "nan" => f64::NAN,
        "pinf" => f64::INFINITY,
        "ninf" => f64::NEG_INFINITY,
        _ => panic!("unknown argument name {sign}"),
    }
}

fn arg_text(sign: &str) -> String {
    match sign {
        "negzero" => "-0".to_string(),
        "tiny" => "1/1048576".to_string(),
        "nan" => "(-8)^.5".to_string(),
        "pinf" => "0^-1".to_string(),
        "ninf" => "-(0^-1)".to_string(),
        _ => format!("{}", arg_of(sign)),
    }
}

pub const ARG_NAMES: &[&str] = &["pos", "zero", "neg", "half", "neghalf", "negzero", "tiny", "big", "threehalves", "nan", "pinf", "ninf"];

fn print_rnd_core(it: &mut Interpreter, arg: &str) -> Result<String, String> {
    it.take_output();
    match it.start_evaluating(format!("PRINT RND({})", arg)) {
        Ok(()) => Ok(it.take_output().into_iter().filter_map(|o| if let InterpreterOutput::Print(s) = o { Some(s) } else { None }).collect()),
        Err(e) => Err(verif::error_info(&e).kind),
    }
}

pub fn replay_rows(tlc_out: &str, rep: &mut Report) {
    for payload in tlc_rows(tlc_out, "ROW") {
        let Ok(row) = serde_json::from_str::<J>(&payload) else { continue };
        rep.count("rows");
        rep.ctx = Some(json!({"sub": "rng-replay", "row": payload}));
        let seed: u64 = text_of(&row["seed"]).parse().unwrap_or(0);
        let signs: Vec<String> = row["signs"].as_array().unwrap().iter().map(|s| s.as_str().unwrap().to_string()).collect();
        let states: Vec<String> = row["states"].as_array().unwrap().iter().map(text_of).collect();
        rep.sample(json!({"seed": seed.to_string(), "argument_signs": signs, "expected_states": states}));
        // (1) through the hook, state by state
        let outcome = std::panic::catch_unwind(|| {
            let mut problems: Vec<String> = vec![];
            // the generator reduces the seed when it is set; start from what randomize() stores
            let mut it = Interpreter::default();
            it.randomize(seed);
            let mut st = verif::snapshot(&it).seed;
            let mut web = abasic_web::JsInterpreter::default();
            web.randomize(seed);
            for (i, sg) in signs.iter().enumerate() {
                let (res, after) = verif::rng_rnd(st, arg_of(sg));
                let expect_err = states[i] == "error";
                if expect_err != res.is_none() {
                    problems.push(format!("call {}: error expected={} observed={}", i, expect_err, res.is_none()));
                }
                let expected_state: u64 = if expect_err { st } else { states[i].parse().unwrap_or(u64::MAX) };
                if after != expected_state {
                    problems.push(format!("call {}: state {} expected {}", i, after, expected_state));
                }
                if let Some(v) = res {
                    if !(v >= 0.0 && v < 1.0) {
                        problems.push(format!("call {}: value {} outside [0,1)", i, v));
                    }
                    if v * TWO33 != expected_state as f64 {
                        problems.push(format!("call {}: value {} is not {} / 2^33", i, v, expected_state));
                    }
                }
                st = after;
                // (2) the same call as PRINT RND(x) on the core interpreter and on the Web adapter
                let core = print_rnd_core(&mut it, &arg_text(sg));
                let expected_text = if expect_err { None } else { Some(format!("{}\n", expected_state as f64 / TWO33)) };
                match (&core, &expected_text) {
                    (Ok(t), Some(e)) if t == e => {}
                    (Err(k), None) if k == "unimplemented" => {}
                    _ => problems.push(format!("call {}: PRINT RND gave {:?}, expected {:?}", i, core, expected_text)),
                }
                web.start_evaluating(format!("PRINT RND({})", arg_text(sg)));
                let wtext: String = web.take_latest_output().into_iter().map(|o| o.into_string()).collect();
                let werr = web.take_latest_error();
                match (&core, werr) {
                    (Ok(t), None) if *t == wtext => {}
                    (Err(_), Some(_)) => {}
                    (c, w) => problems.push(format!("call {}: core {:?} vs web {:?}/{:?}", i, c, wtext, w)),
                }
            }
            problems
        });
        match outcome {
            Err(_) => rep.violation("C18", "panic", json!({}), json!({"seed": seed.to_string(), "signs": signs})),
            Ok(p) if !p.is_empty() => rep.violation("C18", "sequence_differs_from_lcg", json!({"first": p[0].split(':').nth(1).map(|s| s.trim().split(' ').next().unwrap_or("").to_string())}),
                json!({"seed": seed.to_string(), "signs": signs, "expected_states": states, "problems": p})),
            Ok(_) => rep.count("rows_nontrivial"),
        }
    }
}

pub fn record(seed: u64, n: usize, out: &str) {
    let mut rng = StdRng::seed_from_u64(seed);
    let mut f = std::io::BufWriter::new(std::fs::File::create(out).expect("create trace"));
    let boundary: Vec<u64> = vec![0, 1, (1 << 33) - 1, 1 << 33, (1 << 33) + 1, 1 << 43, 11081109438221, 11081109438222, 11081109438223,
                                  1 << 44, 1 << 63, u64::MAX, u64::MAX - 1, 5160, 5161, 4294967295, 4294967296, 4929753061, 4150723358, 4929753061 + (1 << 33)];
    for i in 0..n {
        let before: u64 = if i < boundary.len() * 3 { boundary[i / 3] } else {
            match rng.gen_range(0..4) { 0 => rng.gen::<u64>(), 1 => rng.gen_range(0..1u64 << 33), 2 => rng.gen_range(0..1u64 << 44), _ => rng.gen_range(0..100000) }
        };
        let sign = if i < boundary.len() * 3 { ["pos", "zero", "neg"][i % 3] } else if rng.gen_bool(0.5) { ["pos", "pos", "zero", "neg"][rng.gen_range(0..4)] } else { ARG_NAMES[rng.gen_range(0..ARG_NAMES.len())] };
        let ev = match std::panic::catch_unwind(|| {
            // what randomize(before) stores, then one call
            let mut it = Interpreter::default();
            it.randomize(before);
            let st = verif::snapshot(&it).seed;
            verif::rng_rnd(st, arg_of(sign))
        }) {
            Err(_) => json!({"before": bytes(&before.to_string()), "sign": sign, "err": true, "num": bytes("PANIC"), "after": bytes("PANIC"), "lt1": false}),
            Ok((res, after)) => {
                let (num, lt1) = match res {
                    Some(v) => {
                        let x = v * TWO33;
                        (if x.fract() == 0.0 && x >= 0.0 && x < 1.8e19 { (x as u64).to_string() } else { String::new() }, v >= 0.0 && v < 1.0)
                    }
                    None => (String::new(), true),
                };
                json!({"before": bytes(&before.to_string()), "sign": sign, "err": res.is_none(), "num": bytes(&num), "after": bytes(&after.to_string()), "lt1": lt1})
            }
        };
        writeln!(f, "{}", ev).unwrap();
    }
}
