//! Native-stack probes (C01, C05): one deeply nested line, run in THIS process.
//! The check runs each probe in a child process; a child killed by a signal
//! (stack overflow) is a violation, not a harness failure.
use crate::session::*;
use serde_json::json;

pub fn line_for(kind: &str, depth: usize) -> String {
    match kind {
        "paren" | "ana-paren" => format!("PRINT {}1{}", "(".repeat(depth), ")".repeat(depth)),
        "abs" | "ana-abs" => format!("PRINT {}1{}", "ABS(".repeat(depth), ")".repeat(depth)),
        "index" | "ana-index" => format!("PRINT {}1{}", "A(".repeat(depth), ")".repeat(depth)),
        "ifthen" | "ana-ifthen" => format!("{}PRINT 1", "IF 1 THEN ".repeat(depth)),
        "not" => format!("PRINT {}1{}", "NOT (".repeat(depth), ")".repeat(depth)),
        "unary" => format!("PRINT {}1", "-".repeat(depth)),
        "notchain" => format!("X={}1", "NOT ".repeat(depth)),
        "dimsubs" => format!("DIM B({})", vec!["10"; depth].join(",")),
        "implicit" => format!("PRINT B({})", vec!["1"; depth].join(",")),
        _ => String::new(),
    }
}

/// Probes where two caps multiply: a recursive user function (frame cap 32) whose recursive call
/// sits inside nested parentheses / subscripts (nesting cap 64).  The nesting budget is shared by
/// all active calls, so the native depth stays below 64 levels whatever the product.
fn product_program(kind: &str, depth: usize) -> Option<Vec<String>> {
    let p = depth.min(60);
    match kind {
        "fnrec-paren" => Some(vec![format!("10 DEF F(X)={}F(X)+1{}", "(".repeat(p), ")".repeat(p)), "20 PRINT F(1)".to_string()]),
        "fnrec-index" => Some(vec![format!("10 DEF F(X)={}F(X){}+1", "A(".repeat(p), ")".repeat(p)), "20 PRINT F(1)".to_string()]),
        "fnmutual-paren" => Some(vec![format!("10 DEF F(X)={}G(X)+1{}:DEF G(X)={}F(X)+1{}", "(".repeat(p / 2), ")".repeat(p / 2), "(".repeat(p), ")".repeat(p)), "20 PRINT F(1)".to_string()]),
        _ => None,
    }
}

pub fn run(kind: &str, depth: usize) {
    if product_program(kind, depth).is_some() {
        // on a 2 MiB thread -- what Rust gives every spawned thread by default, and so what a host
        // embedding the interpreter off its main thread would have; the legal 64 levels fit easily
        let (k, d) = (kind.to_string(), depth);
        let h = std::thread::Builder::new().stack_size(2 * 1024 * 1024).spawn(move || run_product(&k, d)).expect("spawn");
        if h.join().is_err() {
            std::process::exit(101);
        }
        return;
    }
    run_plain(kind, depth)
}

fn run_product(kind: &str, depth: usize) {
    if let Some(lines) = product_program(kind, depth) {
        let mut s2 = Sess::new(false, false);
        for l in &lines {
            s2.apply(&call_submit(l));
        }
        let mut ev2 = s2.apply(&call_submit("RUN"));
        let mut n = 0;
        while !s2.dead && s2.mode() == "running" && n < 400 {
            ev2 = s2.apply(&call_simple("continue"));
            n += 1;
        }
        let usable = !s2.dead && s2.mode() == "idle" && s2.apply(&call_submit("PRINT 1"))["res"]["ok"] == true;
        let part = json!({"ok": ev2["res"]["ok"], "err": ev2["res"]["kind"], "mode": ev2["snap"]["mode"]});
        println!("{}", json!({"kind": kind, "depth": depth, "returned": true, "panicked": ev2["panic"] == true, "immediate": part, "program": part, "usable_afterwards": usable}));
    }
}

fn run_plain(kind: &str, depth: usize) {
    let line = line_for(kind, depth);
    let out = if kind.starts_with("ana-") {
        let an = crate::analyzer::analyze(&format!("10 {}", line));
        json!({"kind": kind, "depth": depth, "returned": true, "panicked": an.panicked.is_some(), "errors": an.error_kinds.iter().map(|e| e.1.clone()).collect::<Vec<_>>(),
               "monitors": crate::analyzer::c05_monitors(&an).iter().map(|m| m.0).collect::<Vec<_>>()})
    } else {
        let mut s = Sess::new(false, false);
        let ev = s.apply(&call_submit(&line));
        // numbered + RUN as well
        let mut s2 = Sess::new(false, false);
        s2.apply(&call_submit(&format!("10 {}", line)));
        let mut ev2 = s2.apply(&call_submit("RUN"));
        let mut n = 0;
        while !s2.dead && s2.mode() == "running" && n < 200 {
            ev2 = s2.apply(&call_simple("continue"));
            n += 1;
        }
        let usable = !s.dead && s.mode() == "idle" && s.apply(&call_submit("PRINT 1"))["res"]["ok"] == true;
        json!({"kind": kind, "depth": depth, "returned": true, "panicked": ev["panic"] == true || ev2["panic"] == true,
               "immediate": {"ok": ev["res"]["ok"], "err": ev["res"]["kind"], "mode": ev["snap"]["mode"]},
               "program": {"ok": ev2["res"]["ok"], "err": ev2["res"]["kind"], "mode": ev2["snap"]["mode"]},
               "usable_afterwards": usable})
    };
    println!("{}", out);
}
