//! Native-stack probes (C01, C05): one deeply nested line, run in THIS process.
//! The check runs each probe in a child process; a child killed by a signal
//! (stack overflow) is a violation, not a harness failure.
use crate::session::*;
use serde_json::json;

pub fn line_for(kind: &str, depth: usize) -> String {
    match kind {
        "paren" | "ana-paren" => format!("PRINT {}1{}", "(".repeat(depth), ")".repeat(depth)),
        "abs" | "ana-abs" => format!("PRINT {}1{}", "ABS(".repeat(depth), ")".repeat(depth)),
        "index" | "ana-index" => format!("PRINT {}1{}", "A(".repeat(depth), ")".repeat(depth)),
        "ifthen" | "ana-ifthen" => format!("{}PRINT 1", "IF 1 THEN ".repeat(depth)),
        "not" => format!("PRINT {}1{}", "NOT (".repeat(depth), ")".repeat(depth)),
        "dimsubs" => format!("DIM B({})", vec!["10"; depth].join(",")),
        "implicit" => format!("PRINT B({})", vec!["1"; depth].join(",")),
        _ => String::new(),
    }
}

pub fn run(kind: &str, depth: usize) {
    let line = line_for(kind, depth);
    let out = if kind.starts_with("ana-") {
        let an = crate::analyzer::analyze(&format!("10 {}", line));
        json!({"kind": kind, "depth": depth, "returned": true, "panicked": an.panicked.is_some(), "errors": an.error_kinds.iter().map(|e| e.1.clone()).collect::<Vec<_>>(),
               "monitors": crate::analyzer::c05_monitors(&an).iter().map(|m| m.0).collect::<Vec<_>>()})
    } else {
        let mut s = Sess::new(false, false);
        let ev = s.apply(&call_submit(&line));
        // numbered + RUN as well
        let mut s2 = Sess::new(false, false);
        s2.apply(&call_submit(&format!("10 {}", line)));
        let mut ev2 = s2.apply(&call_submit("RUN"));
        let mut n = 0;
        while !s2.dead && s2.mode() == "running" && n < 200 {
            ev2 = s2.apply(&call_simple("continue"));
            n += 1;
        }
        let usable = !s.dead && s.mode() == "idle" && s.apply(&call_submit("PRINT 1"))["res"]["ok"] == true;
        json!({"kind": kind, "depth": depth, "returned": true, "panicked": ev["panic"] == true || ev2["panic"] == true,
               "immediate": {"ok": ev["res"]["ok"], "err": ev["res"]["kind"], "mode": ev["snap"]["mode"]},
               "program": {"ok": ev2["res"]["ok"], "err": ev2["res"]["kind"], "mode": ev2["snap"]["mode"]},
               "usable_afterwards": usable})
    };
    println!("{}", out);
}
