//! Driving the real interpreter one host call at a time and recording, after
//! every call, the observation the TLA+ model predicts: result, outputs, state.
use crate::model::*;
use abasic_core::verif::{self, Loc, Snapshot};
use abasic_core::{Interpreter, InterpreterOutput, InterpreterState};
use serde_json::{json, Value as J};
use std::panic::{catch_unwind, AssertUnwindSafe};

pub fn call_submit(text: &str) -> J {
    json!({"k": "submit", "text": bytes(text), "seed": []})
}
pub fn call_provide(text: &str) -> J {
    json!({"k": "provide", "text": bytes(text), "seed": []})
}
pub fn call_simple(k: &str) -> J {
    json!({"k": k, "text": [], "seed": []})
}
pub fn call_randomize(seed: u64) -> J {
    json!({"k": "randomize", "text": [], "seed": bytes(&seed.to_string())})
}
pub fn call_reset(trace: bool, warn: bool) -> J {
    json!({"k": "reset", "text": [], "seed": [], "trace": trace, "warn": warn})
}

pub fn mode_name(s: InterpreterState) -> &'static str {
    match s {
        InterpreterState::Idle => "idle",
        InterpreterState::Running => "running",
        InterpreterState::AwaitingInput => "awaiting",
        InterpreterState::NewInterpreterRequested => "new",
    }
}

fn line_key(l: &Option<u64>) -> J {
    match l {
        Some(n) => key(*n),
        None => json!([]),
    }
}

fn loc_json(l: &Loc) -> J {
    json!({"line": line_key(&l.line), "tok": l.token_index})
}

fn opt_loc_json(l: &Option<Loc>) -> J {
    match l {
        Some(l) => json!({"some": true, "line": line_key(&l.line), "tok": l.token_index}),
        None => json!({"some": false, "line": [], "tok": 0}),
    }
}

pub fn snap_json(s: &Snapshot) -> J {
    let pairs = |v: &Vec<(String, verif::Val)>| -> J {
        J::Array(v.iter().map(|(k, x)| json!({"k": bytes(k), "v": val(x)})).collect())
    };
    json!({
        "mode": mode_name(s.state),
        "loc": loc_json(&s.location),
        "bp": opt_loc_json(&s.breakpoint),
        "stack": s.stack.iter().map(|f| json!({"ret": loc_json(&f.return_location), "binds": pairs(&f.bindings)})).collect::<Vec<_>>(),
        "loops": s.loops.iter().map(|l| json!({"sym": bytes(&l.symbol), "loc": loc_json(&l.location), "to": num(l.to_value), "step": num(l.step_value)})).collect::<Vec<_>>(),
        "data": match &s.data_cursor {
            Some(d) => json!({"some": true, "chunk": d.chunk_index, "item": d.chunk_item_index}),
            None => json!({"some": false, "chunk": 0, "item": 0}),
        },
        "fns": s.functions.iter().map(|f| json!({"k": bytes(&f.name), "args": f.arguments.iter().map(|a| bytes(a)).collect::<Vec<_>>(),
                 "line": line_key(&f.location.line), "tok": f.location.token_index})).collect::<Vec<_>>(),
        "vars": pairs(&s.variables),
        "arrays": s.arrays.iter().map(|a| json!({"k": bytes(&a.name), "dims": a.dimensions, "ncells": a.cell_count, "str": a.is_string,
                 "cells": a.non_default.iter().map(|(i, v)| json!({"i": i, "v": val(v)})).collect::<Vec<_>>()})).collect::<Vec<_>>(),
        "input": match &s.pending_input { Some(t) => json!({"some": true, "text": bytes(t)}), None => json!({"some": false, "text": []}) },
        "seed": bytes(&s.seed.to_string()),
        "trace": s.enable_tracing, "warn": s.enable_warnings,
        "keys": s.line_set_keys.iter().map(|k| key(*k)).collect::<Vec<_>>(),
        "keys_map": s.line_map_keys.iter().map(|k| key(*k)).collect::<Vec<_>>(),
        "reads": s.token_reads,
    })
}

pub fn out_json(o: &InterpreterOutput) -> J {
    let base = |t: &str| json!({"t": t, "text": [], "line": [], "what": "", "unk": false});
    match o {
        InterpreterOutput::Print(s) => {
            let mut j = base("print");
            j["text"] = bytes(s);
            j
        }
        InterpreterOutput::Trace(n) => {
            let mut j = base("trace");
            j["line"] = key(*n);
            j
        }
        InterpreterOutput::Break(l) => {
            let mut j = base("break");
            j["line"] = line_key(l);
            j
        }
        InterpreterOutput::Warning(msg, l) => {
            let mut j = base("warning");
            j["line"] = line_key(l);
            j["what"] = json!(if msg.starts_with("Use of undeclared variable") {
                "var"
            } else if msg.starts_with("Use of undeclared array") {
                "array"
            } else {
                "other"
            });
            j["msg"] = json!(msg);
            j
        }
        InterpreterOutput::ExtraIgnored => base("extra"),
        InterpreterOutput::Reenter => base("reenter"),
    }
}

pub fn prog_json(interp: &Interpreter) -> J {
    J::Array(
        interp
            .verif_program_lines()
            .iter()
            .map(|(n, ts)| json!({"k": key(*n), "toks": toks(ts)}))
            .collect(),
    )
}

/// Is this text inside the model's domain (see Abasic!SubmitLine and Lexer!Trim)?
pub fn in_domain(text: &str) -> bool {
    // very long lines (deep-nesting and many-subscript probes) are judged by the monitors only:
    // lexing them in TLC costs seconds per line
    if text.len() > 160 {
        return false;
    }
    let first = text.split_ascii_whitespace().next().unwrap_or("");
    if !first.is_ascii() {
        return false;
    }
    let up = first.to_ascii_uppercase();
    up != "INTERNALS" && up != "STATS"
}

thread_local! {
    /// true while code under test runs inside catch_unwind (its panics are data, not harness failures)
    pub static IN_SUT: std::cell::Cell<bool> = std::cell::Cell::new(false);
}

pub struct Sess {
    pub interp: Interpreter,
    pub dead: bool,
    pub last_line: Option<String>,
}

impl Sess {
    pub fn new(trace: bool, warn: bool) -> Self {
        let mut interp = Interpreter::default();
        interp.enable_tracing = trace;
        interp.enable_warnings = warn;
        Sess { interp, dead: false, last_line: None }
    }

    pub fn mode(&self) -> &'static str {
        mode_name(self.interp.get_state())
    }

    pub fn legal(&self, k: &str) -> bool {
        match (k, self.interp.get_state()) {
            ("submit", InterpreterState::Idle) => true,
            ("continue", InterpreterState::Running) => true,
            ("provide", InterpreterState::AwaitingInput) => true,
            ("break", InterpreterState::Running) | ("break", InterpreterState::AwaitingInput) => true,
            ("replace", InterpreterState::NewInterpreterRequested) => true,
            ("randomize", _) => true,
            _ => false,
        }
    }

    /// Perform one host call and return the event (call + observation).
    pub fn apply(&mut self, call: &J) -> J {
        let k = call["k"].as_str().unwrap_or("").to_string();
        let text = text_of(&call["text"]);
        let mut dom = true;
        // C09: work per call is measured (token-cursor reads), against the length of the line executed
        let before = verif::snapshot(&self.interp);
        // (the longest stored line: a call may finish one line and look at the next)
        let line_tokens = self.interp.verif_program_lines().iter().map(|(_, t)| t.len()).max().unwrap_or(0).max(before.immediate_line.len());
        let has_functions = !before.functions.is_empty();
        let interp = &mut self.interp;
        IN_SUT.with(|f| f.set(true));
        let result = catch_unwind(AssertUnwindSafe(|| match k.as_str() {
            "submit" => interp.start_evaluating(&text).map_err(|e| (verif::error_info(&e), e)),
            "continue" => interp.continue_evaluating().map_err(|e| (verif::error_info(&e), e)),
            "provide" => {
                interp.provide_input(text.clone());
                Ok(())
            }
            "break" => {
                interp.break_at_current_location();
                Ok(())
            }
            "replace" => {
                *interp = Interpreter::default();
                Ok(())
            }
            "randomize" => {
                let seed: u64 = text_of(&call["seed"]).parse().unwrap_or(0);
                interp.randomize(seed);
                Ok(())
            }
            _ => Ok(()),
        }));
        IN_SUT.with(|f| f.set(false));
        if k == "submit" {
            dom = in_domain(&text);
            self.last_line = Some(text.clone());
        }
        match result {
            Err(p) => {
                self.dead = true;
                let msg = if let Some(s) = p.downcast_ref::<String>() {
                    s.clone()
                } else if let Some(s) = p.downcast_ref::<&str>() {
                    s.to_string()
                } else {
                    "panic".to_string()
                };
                json!({"c": call, "dom": dom, "panic": true, "panic_msg": msg,
                       "res": {"ok": true, "kind": "", "hl": false, "line": [], "tok": 0}, "out": [], "snap": {}, "edit": {"some": false, "k": [], "toks": []}})
            }
            Ok(r) => {
                let mut caret_ok = true;
                let mut caret: Vec<String> = vec![];
                let res = match &r {
                    Ok(()) => json!({"ok": true, "kind": "", "hl": false, "line": [], "tok": 0}),
                    Err((info, err)) => {
                        // C01: every error can be rendered as source line + caret
                        let last = self.last_line.clone();
                        let interp_ref = &self.interp;
                        IN_SUT.with(|f| f.set(true));
                        match catch_unwind(AssertUnwindSafe(|| err.get_line_with_pointer_caret(interp_ref, last))) {
                            Ok(lines) => caret = lines,
                            Err(_) => caret_ok = false,
                        }
                        IN_SUT.with(|f| f.set(false));
                        let (hl, line, tok) = match &info.location {
                            Some(l) => (true, line_key(&l.line), l.token_index),
                            None => (false, json!([]), 0),
                        };
                        json!({"ok": false, "kind": info.kind, "hl": hl, "line": line, "tok": tok,
                               "tokpos": info.tokenization_pos.map(|(a, b)| json!([a, b.unwrap_or(a)])), "expected": info.expected})
                    }
                };
                let outs: Vec<J> = self.interp.take_output().iter().map(out_json).collect();
                let snap = verif::snapshot(&self.interp);
                // after a successful numbered-line entry: what is now stored under that number
                let mut edit = json!({"some": false, "k": [], "toks": []});
                if k == "submit" && r.is_ok() && self.interp.get_state() == InterpreterState::Idle {
                    if let Some((n, _)) = verif::line_number(&text) {
                        let first = text.split_ascii_whitespace().next().unwrap_or("").to_ascii_uppercase();
                        if !["RUN", "LIST", "NEW", "CONT", "TRACE", "NOTRACE", "INTERNALS", "STATS"].contains(&first.as_str()) {
                            let stored = self.interp.verif_program_lines().into_iter().find(|(m, _)| *m == n);
                            edit = json!({"some": true, "k": key(n), "toks": stored.map(|(_, ts)| toks(&ts)).unwrap_or(json!([]))});
                        }
                    }
                }
                // lines this call may have walked over: where it started, where it ended, or (submit) the new immediate line
                let end_tokens = 0;
                let submitted_tokens = if k == "submit" { verif::tokenize(&text, 0).0.len() } else { 0 };
                json!({"c": call, "dom": dom, "panic": false, "res": res, "out": outs, "snap": snap_json(&snap),
                       "edit": edit, "caret_ok": caret_ok, "caret": caret.iter().map(|l| bytes(l)).collect::<Vec<_>>(),
                       "work": {"reads": snap.token_reads.saturating_sub(before.token_reads), "line_tokens": line_tokens.max(end_tokens).max(submitted_tokens),
                                "functions": has_functions || !snap.functions.is_empty()}})
            }
        }
    }
}

// ---------------------------------------------------------------------------
// Model-vs-implementation agreement on JSON values (mirror of Conform.tla).

fn is_num_obj(j: &J) -> bool {
    j.is_object() && j.get("t").is_some() && j.get("n").is_some() && j.get("d").is_some()
}

/// Model value `m` agrees with recorded value `r`.
pub fn agrees(m: &J, r: &J) -> bool {
    if is_num_obj(m) && m["t"] == "o" {
        return r.is_object() && r["t"] != "s";
    }
    match (m, r) {
        (J::Object(mo), J::Object(ro)) => {
            let unk = mo.get("unk").and_then(|u| u.as_bool()).unwrap_or(false);
            mo.iter().all(|(k, mv)| {
                if unk && k == "text" {
                    return true;
                }
                if k == "unk" {
                    return true;
                }
                if k == "cells" {
                    return cells_agree(mv, ro.get(k).unwrap_or(&J::Null));
                }
                match ro.get(k) {
                    Some(rv) => agrees(mv, rv),
                    None => false,
                }
            })
        }
        (J::Array(ma), J::Array(ra)) => ma.len() == ra.len() && ma.iter().zip(ra).all(|(x, y)| agrees(x, y)),
        _ => m == r,
    }
}

fn cells_agree(m: &J, r: &J) -> bool {
    let (Some(ma), Some(ra)) = (m.as_array(), r.as_array()) else { return false };
    ra.iter().all(|rc| ma.iter().any(|mc| mc["i"] == rc["i"] && agrees(&mc["v"], &rc["v"])))
        && ma.iter().all(|mc| mc["v"]["t"] == "o" || ra.iter().any(|rc| rc["i"] == mc["i"]))
}

/// Names of the fields on which prediction and observation differ.
pub fn diff(pred: &J, obs: &J) -> Vec<String> {
    let mut d = vec![];
    let (pr, or) = (&pred["res"], &obs["res"]);
    if pr["ok"] != or["ok"] {
        d.push("res.ok".to_string());
    } else if pr["kind"] != or["kind"] {
        d.push("res.kind".to_string());
    } else if pr["hl"] != or["hl"] || (pr["hl"] == true && (pr["line"] != or["line"] || pr["tok"] != or["tok"])) {
        d.push("res.loc".to_string());
    }
    let (po, oo) = (pred["out"].as_array().cloned().unwrap_or_default(), obs["out"].as_array().cloned().unwrap_or_default());
    if po.len() != oo.len() {
        d.push("out.count".to_string());
    } else {
        if po.iter().zip(&oo).any(|(a, b)| a["t"] != b["t"]) {
            d.push("out.kind".to_string());
        } else {
            if po.iter().zip(&oo).any(|(a, b)| a["line"] != b["line"] || a["what"] != b["what"]) {
                d.push("out.line".to_string());
            }
            if po.iter().zip(&oo).any(|(a, b)| a["unk"] != true && a["text"] != b["text"]) {
                d.push("out.text".to_string());
            }
        }
    }
    if pred["caret"]["ok"] == true && obs["res"]["ok"] == false && pred["caret"]["lines"] != obs["caret"] {
        d.push("caret".to_string());
    }
    if let (Some(ps), Some(os)) = (pred["snap"].as_object(), obs["snap"].as_object()) {
        for (k, mv) in ps {
            let ok = match k.as_str() {
                "bp" | "input" => {
                    let rv = &os[k];
                    mv["some"] == rv["some"] && (mv["some"] == false || agrees(mv, rv))
                }
                "data" => {
                    // the abstract cursor is the position of the next item READ takes: "no cursor yet"
                    // and "at the first item of the first DATA statement" are the same position
                    let pos = |v: &J| if v["some"] == true { (v["chunk"].as_u64().unwrap_or(0), v["item"].as_u64().unwrap_or(0)) } else { (0, 0) };
                    pos(mv) == pos(&os[k])
                }
                _ => os.get(k).map(|rv| agrees(mv, rv)).unwrap_or(false),
            };
            if !ok {
                d.push(k.clone());
            }
        }
    }
    d
}
