//! Implementation -> spec for the lexer: generate random lines, run the real
//! tokenizer / LIST / reload on them, and write one ndjson event per line for
//! Trace_Lex.tla to judge.
use crate::lexrows::{err_json, list_program, ranges_json, real_lex, RealLex};
use crate::model::*;
use abasic_core::Interpreter;
use rand::rngs::StdRng;
use rand::{Rng, SeedableRng};
use serde_json::{json, Value as J};
use std::io::Write;

const LEXEMES: &[&str] = &[
    "PRINT", "print", "GO", "TO", "GOTO", "GOSUB", "IF", "THEN", "ELSE", "FOR", "NEXT", "STEP", "OR", "AND", "NOT",
    "LET", "DIM", "DEF", "END", "STOP", "READ", "RESTORE", "RETURN", "INPUT", "REM", "DATA", "rem", "data",
    "\"\"", "\"\",", "\\", "\u{fe0f}", "\u{200d}", "\u{7}", "C:\\DOS",
    // a keyword minus its last letter, followed by a character whose first byte is that letter with bit 7
    // (or bits 7 and 5) set: case folding by bit masks must not see a keyword there
    "STO\u{410}", "STO😊", "I\u{192}", "I日", "T\u{3c0}", "GOSU€", "GOSU¡", "THE\u{3b1}", "EN\u{101}", "ELS\u{161}", "RE\u{34d}", "RE한", "DAT\u{1000}", "PRIN\u{500}",
    // sizes the short alphabets never reach: long names, long strings, larger numerals
    "ZEBRA9", "QUUX$", "WXYZ12345",
    // long names that differ only in their first characters (hashing / truncating a name must not merge them)
    "\u{a0}", "\u{3000}", "\u{b}", "\u{2028}", "\u{a0}\"q\"", "XPOSITION", "YPOSITION", "POSITION", "ABCDEFGHIJKLMNOP1", "ZBCDEFGHIJKLMNOP1", "LONGLONGLONGNAMEA$", "XONGLONGLONGNAMEA$", "\"ABCDEFGHIJKLMNOPQRSTUVWXYZ0123456789\"", "12345", "65535", "1000000", ".001", "123.456", "0000123",
    "\"-1\"", "\"1E3\"", "\"NAN\"", "\"inf\"", "\"+5\"", "-1", "1E3", "nan", "SC", "E", "x", "Y1", "A$", "TOTAL", "0", "1", "5", "25", ".", ".5", "\"", "\"hi\"", "<", ">", "=", "<=", "<>",
    ":", ",", ";", "$", " ", "  ", "\t", "+", "-", "*", "/", "^", "(", ")", "?", "é", "日", "%", "😊",
];

/// Numerals of hundreds of digits: around the largest finite f64 (2^1024 - 2^970 is the
/// least integer that rounds to infinity), far beyond it, and far below the smallest.
pub fn long_numerals() -> Vec<String> {
    const LIMIT: &str = "179769313486231580793728971405303415079934132710037826936173778980444968292764750946649017977587207096330286416692887910946555547851940402630657488671505820681908902000708383676273854845817711531764475730270069855571366959622842914819860834936475292719074168444365510704342711559699508093042880177904174497792";
    let below = format!("{}1", &LIMIT[..LIMIT.len() - 1]); // LIMIT - 1
    vec![
        LIMIT.to_string(),
        below,
        "9".repeat(309),
        "9".repeat(308),
        format!("1{}", "0".repeat(308)),
        format!("1{}", "0".repeat(309)),
        format!("000{}", "7".repeat(400)),
        format!("{}.5", "9".repeat(309)),
        format!("0.{}1", "0".repeat(340)),
        format!(".{}1", "0".repeat(340)),
        "123456789".repeat(30),
        format!("0.{}", "123456789".repeat(30)),
    ]
}

pub fn random_line(rng: &mut StdRng) -> String {
    let n = rng.gen_range(1..=9);
    let mut s = String::new();
    let long = if rng.gen_bool(0.04) { Some(rng.gen_range(0..n)) } else { None };
    // numerals of every length up to 24 digits, with the dot anywhere: the 15 / 17 / 19-digit
    // boundaries of double precision and of 64-bit accumulators lie in there
    let randnum = if rng.gen_bool(0.15) { Some(rng.gen_range(0..n)) } else { None };
    for i in 0..n {
        if randnum == Some(i) {
            let len = rng.gen_range(1..=24);
            let dot = if rng.gen_bool(0.7) { Some(rng.gen_range(0..=len)) } else { None };
            for k in 0..len {
                if dot == Some(k) { s.push('.'); }
                s.push((b'0' + rng.gen_range(0..10u8)) as char);
            }
            continue;
        }
        if long == Some(i) {
            let xs = long_numerals();
            s.push_str(&xs[rng.gen_range(0..xs.len())]);
            continue;
        }
        s.push_str(LEXEMES[rng.gen_range(0..LEXEMES.len())]);
        if rng.gen_bool(0.25) {
            s.push(' ');
        }
    }
    s
}

fn same(a: &RealLex, b: &RealLex) -> bool {
    a.toks.len() == b.toks.len()
        && a.toks.iter().zip(&b.toks).all(|(x, y)| tok_same(x, y))
        && a.err.as_ref().map(|e| e.kind.clone()) == b.err.as_ref().map(|e| e.kind.clone())
}

pub fn lex_event(line: &str, rng: &mut StdRng) -> J {
    // a panic of the code under test is data, recorded as an event whose error kind is PANIC
    crate::session::IN_SUT.with(|x| x.set(true));
    let r = std::panic::catch_unwind(std::panic::AssertUnwindSafe(|| lex_event_inner(line, rng)));
    crate::session::IN_SUT.with(|x| x.set(false));
    r.unwrap_or_else(|_| json!({"line": bytes(line), "toks": [], "ranges": [], "err": "PANIC", "ea": 0, "eb": 0, "pert": [],
                                "listed": false, "list": [], "reload_same": true}))
}

fn lex_event_inner(line: &str, rng: &mut StdRng) -> J {
    let real = real_lex(line, 0);
    let (k, a, b) = err_json(&real.err);
    let bytes_v = line.as_bytes().to_vec();
    // random perturbations at character boundaries; TLC decides which ones C12 covers
    let mut pert = vec![];
    for _ in 0..6 {
        let kind = ["ins", "del", "flip"][rng.gen_range(0..3)];
        if bytes_v.is_empty() && kind != "ins" {
            continue;
        }
        let p = if kind == "ins" { rng.gen_range(0..=bytes_v.len()) } else { rng.gen_range(0..bytes_v.len()) };
        let mut v = bytes_v.clone();
        match kind {
            // one blank, or (one time in three) a run of blanks: 2, 8, 29, 33, 40, 64 or 300 of them
            "ins" => {
                let run = if rng.gen_bool(0.33) { [2usize, 8, 29, 33, 40, 64, 300][rng.gen_range(0..7)] } else { 1 };
                let b = if rng.gen_bool(0.5) { 32 } else { 9 };
                for _ in 0..run { v.insert(p, b); }
            }
            "del" => {
                if v[p] != 32 && v[p] != 9 {
                    continue;
                }
                v.remove(p);
            }
            _ => {
                if !v[p].is_ascii_alphabetic() {
                    continue;
                }
                v[p] ^= 0x20;
            }
        }
        let Ok(t) = String::from_utf8(v) else { continue };
        let other = real_lex(&t, 0);
        pert.push(json!({"kind": kind, "p": p, "same": same(&real, &other)}));
    }
    // LIST / reload
    let mut listed = false;
    let mut listing = String::new();
    let mut reload_same = true;
    if real.err.is_none() && !real.toks.is_empty() {
        let mut ia = Interpreter::default();
        if ia.start_evaluating(format!("10 {}", line)).is_ok() {
            if let Ok(l) = list_program(&mut ia) {
                listed = true;
                listing = l.concat();
                let mut ib = Interpreter::default();
                let mut ok = true;
                for x in &l {
                    ok &= ib.start_evaluating(x.strip_suffix('\n').unwrap_or(x)).is_ok();
                }
                let relisted = list_program(&mut ib).unwrap_or_default().concat();
                let (ta, tb) = (ia.verif_program_lines(), ib.verif_program_lines());
                let same_toks = ta.len() == tb.len()
                    && ta.iter().zip(&tb).all(|(x, y)| {
                        x.0 == y.0 && x.1.len() == y.1.len() && x.1.iter().zip(&y.1).all(|(p, q)| tok_same(p, q))
                    });
                reload_same = ok && relisted == listing && same_toks;
            }
        }
    }
    json!({
        "line": bytes(line), "toks": toks(&real.toks), "ranges": ranges_json(&real.ranges),
        "err": k, "ea": a, "eb": b, "pert": pert,
        "listed": listed, "list": bytes(&listing), "reload_same": reload_same,
    })
}

pub fn record(seed: u64, n: usize, out: &str) {
    let mut rng = StdRng::seed_from_u64(seed);
    let mut f = std::io::BufWriter::new(std::fs::File::create(out).expect("create trace"));
    for _ in 0..n {
        let line = random_line(&mut rng);
        let ev = lex_event(&line, &mut rng);
        writeln!(f, "{}", ev).unwrap();
    }
}
