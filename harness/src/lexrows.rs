//! Spec -> implementation for the lexer: replay the table printed by MC_Lex
//! (one row per enumerated line: the model's tokenization, the positions at
//! which C12 allows perturbations, and the model's LIST line) through the
//! real tokenizer and the real LIST / reload path.
use crate::model::*;
use crate::report::Report;
use abasic_core::verif::{self, ErrInfo, Tok};
use abasic_core::{Interpreter, InterpreterOutput};
use serde_json::{json, Value as J};
use std::ops::Range;

pub fn err_json(e: &Option<ErrInfo>) -> (String, u64, u64) {
    match e {
        None => (String::new(), 0, 0),
        Some(info) => {
            let kind = info
                .kind
                .strip_prefix("syntax_tokenization_")
                .unwrap_or(&info.kind)
                .to_string();
            let (a, b) = info.tokenization_pos.unwrap_or((0, None));
            // the model carries [ea, eb]; single-position variants have eb = ea
            (kind, a as u64, b.unwrap_or(a) as u64)
        }
    }
}

pub fn ranges_json(rs: &[Range<usize>]) -> J {
    J::Array(rs.iter().map(|r| json!([r.start, r.end])).collect())
}

pub struct RealLex {
    pub toks: Vec<Tok>,
    pub ranges: Vec<Range<usize>>,
    pub err: Option<ErrInfo>,
}

pub fn real_lex(line: &str, skip: usize) -> RealLex {
    let (pairs, err) = verif::tokenize(line, skip);
    let mut toks = vec![];
    let mut ranges = vec![];
    for (t, r) in pairs {
        toks.push(t);
        ranges.push(r);
    }
    RealLex { toks, ranges, err }
}

fn same_meaning(a: &RealLex, b: &RealLex) -> bool {
    a.toks.len() == b.toks.len()
        && a.toks.iter().zip(&b.toks).all(|(x, y)| tok_same(x, y))
        && a.err.as_ref().map(|e| e.kind.clone()) == b.err.as_ref().map(|e| e.kind.clone())
}

pub fn list_program(interp: &mut Interpreter) -> Result<Vec<String>, String> {
    interp.take_output();
    interp.start_evaluating("LIST").map_err(|e| format!("{:?}", e.error))?;
    Ok(interp
        .take_output()
        .into_iter()
        .filter_map(|o| match o {
            InterpreterOutput::Print(s) => Some(s),
            _ => None,
        })
        .collect())
}

/// M_C13 on a real tokenization: ranges in the line, on character boundaries, ordered, disjoint,
/// non-blank at both ends (REM and DATA run to the end of their text), each re-tokenizing to its token;
/// for a line that does not tokenize, the error position and the text before it.
pub fn range_monitor(line: &str, r: &RealLex) -> Option<&'static str> {
    let b = line.as_bytes();
    let blank = |c: u8| c == b' ' || c == b'\t' || c == 12 || c == b'\r';
    let mut prev_end = 0usize;
    for (t, rg) in r.toks.iter().zip(&r.ranges) {
        if rg.start >= rg.end || rg.end > b.len() { return Some("out_of_line"); }
        if !line.is_char_boundary(rg.start) || !line.is_char_boundary(rg.end) { return Some("off_character_boundary"); }
        if rg.start < prev_end { return Some("overlapping"); }
        if blank(b[rg.start]) { return Some("begins_on_blank"); }
        if !(t.kind == "remark" || t.kind == "data") && blank(b[rg.end - 1]) { return Some("ends_on_blank"); }
        let again = real_lex(&line[rg.clone()], 0);
        if again.err.is_some() || again.toks.len() != 1 || !tok_same(&again.toks[0], t) { return Some("range_does_not_retokenize_to_its_token"); }
        prev_end = rg.end;
    }
    // a line that does not tokenize: the error position lies in the line, and the text before
    // it tokenizes to exactly the tokens reported
    if let Some(info) = &r.err {
        if let Some((ea, _)) = info.tokenization_pos {
            if ea >= b.len() { return Some("error_position_outside_line"); }
            if line.is_char_boundary(ea) {
                let pre = real_lex(&line[..ea], 0);
                if pre.err.is_some() || pre.toks.len() != r.toks.len() || !pre.toks.iter().zip(&r.toks).all(|(x, y)| tok_same(x, y)) {
                    return Some("text_before_error_does_not_tokenize_to_reported_tokens");
                }
            }
        }
    }
    None
}

fn lex_obs_json(r: &RealLex) -> J {
    let (k, a, b) = err_json(&r.err);
    json!({"toks": toks(&r.toks), "ranges": ranges_json(&r.ranges), "err": k, "ea": a, "eb": b})
}

pub fn replay_rows(tlc_out: &str, rep: &mut Report) {
    for payload in tlc_rows(tlc_out, "ROW") {
        // a panic of the code under test is data: it violates whichever of C12 / C13 / C14 is being checked
        crate::session::IN_SUT.with(|x| x.set(true));
        let r = std::panic::catch_unwind(std::panic::AssertUnwindSafe(|| replay_row(&payload, rep)));
        crate::session::IN_SUT.with(|x| x.set(false));
        if r.is_err() {
            for pid in ["C12", "C13", "C14"] {
                rep.violation(pid, "tokenizer_panicked", json!({}), json!({"row": payload}));
            }
        }
    }
}

fn replay_row(payload: &str, rep: &mut Report) {
    let payload = payload.to_string();
        let row: J = match serde_json::from_str(&payload) {
            Ok(v) => v,
            Err(_) => {
                rep.count("rows_unparsable");
                return;
            }
        };
        rep.count("rows");
        rep.ctx = Some(json!({"sub": "lex-replay", "row": payload}));
        let line_bytes = from_bytes(&row["line"]);
        let Ok(line) = String::from_utf8(line_bytes.clone()) else {
            rep.count("rows_not_utf8");
            return;
        };
        let real = real_lex(&line, 0);
        let obs = lex_obs_json(&real);
        rep.sample(json!({"line": line, "model_tokens": row["toks"].as_array().map(|a| a.iter().map(|t| t["k"].clone()).collect::<Vec<_>>()), "model_err": row["err"]}));

        // ---- pi_C13: tokens, ranges and error position equal the model's
        let toks_ok = toks_agree(&row["toks"], &obs["toks"]);
        let ranges_ok = row["ranges"] == obs["ranges"];
        let err_ok = row["err"] == obs["err"]
            && (row["err"] == "" || (row["ea"] == obs["ea"] && (row["err"] != "invalid_number" || row["eb"] == obs["eb"])));
        if !toks_ok || !ranges_ok || !err_ok {
            let what = if !toks_ok { "tokens" } else if !ranges_ok { "ranges" } else { "error" };
            rep.violation(
                "C13",
                "tokenization_differs_from_model",
                json!({"what": what, "model_err": row["err"], "real_err": obs["err"]}),
                json!({"line": row["line"], "text": line, "expected": {"toks": row["toks"], "ranges": row["ranges"], "err": row["err"], "ea": row["ea"], "eb": row["eb"]}, "observed": obs}),
            );
        }
        if let Some(problem) = range_monitor(&line, &real) {
            rep.violation("C13", "range_malformed", json!({"problem": problem}), json!({"line": row["line"], "text": line, "observed": obs}));
        }
        if toks_ok && real.toks.len() > 0 {
            rep.count("rows_nontrivial");
        }

        // ---- M_C12: every allowed perturbation leaves the real token sequence unchanged
        let mut perturbed: Vec<(String, u64, Vec<u8>)> = vec![];
        for p in row["ins"].as_array().into_iter().flatten() {
            let p = p.as_u64().unwrap() as usize;
            for (name, b) in [("ins_space", 32u8), ("ins_tab", 9u8)] {
                let mut v = line_bytes.clone();
                v.insert(p, b);
                perturbed.push((name.to_string(), p as u64, v));
            }
        }
        for p in row["del"].as_array().into_iter().flatten() {
            let p = p.as_u64().unwrap() as usize;
            let mut v = line_bytes.clone();
            v.remove(p);
            perturbed.push(("del_blank".to_string(), p as u64, v));
        }
        for p in row["flip"].as_array().into_iter().flatten() {
            let p = p.as_u64().unwrap() as usize;
            let mut v = line_bytes.clone();
            v[p] ^= 0x20;
            perturbed.push(("flip_case".to_string(), p as u64, v));
        }
        for (name, p, v) in perturbed {
            rep.count("perturbations");
            let Ok(text) = String::from_utf8(v.clone()) else {
                rep.count("perturbations_not_utf8");
                return;
            };
            let other = real_lex(&text, 0);
            // M_C13 on the perturbed spelling too: its ranges must be exact as well
            if let Some(problem) = range_monitor(&text, &other) {
                rep.violation(
                    "C13",
                    "range_malformed_on_perturbed_line",
                    json!({"problem": problem, "perturbation": name}),
                    json!({"line": row["line"], "text": line, "perturbed": bytes_of(&v), "perturbed_text": text, "observed": lex_obs_json(&other)}),
                );
            }
            if !same_meaning(&real, &other) {
                let tk = real
                    .toks
                    .iter()
                    .zip(real.ranges.iter())
                    .find(|(_, r)| (r.start as u64) <= p && p <= r.end as u64)
                    .map(|(t, _)| t.kind)
                    .unwrap_or("none");
                rep.violation(
                    "C12",
                    "perturbation_changes_tokens",
                    json!({"perturbation": name, "token_kind_at_position": tk}),
                    json!({"line": row["line"], "text": line, "perturbed": bytes_of(&v), "perturbed_text": text, "position": p,
                           "observed_original": lex_obs_json(&real), "observed_perturbed": lex_obs_json(&other)}),
                );
            }
        }

        // ---- C14: LIST / reload
        if real.err.is_none() && !real.toks.is_empty() {
            rep.count("list_roundtrips");
            let mut a = Interpreter::default();
            let entered = format!("10 {}", line);
            if a.start_evaluating(&entered).is_err() {
                rep.violation("C14", "stored_line_rejected", json!({}), json!({"entered": bytes(&entered)}));
                return;
            }
            let listing = match list_program(&mut a) {
                Ok(l) => l,
                Err(e) => {
                    rep.violation("C14", "list_failed", json!({"err": e}), json!({"entered": bytes(&entered)}));
                    return;
                }
            };
            let listing_text: String = listing.concat();
            // pi_C14: the listing equals the model's.  A different spelling is a divergence from the
            // specification, not by itself a violation of C14: the property is about what reloads
            // (checked next on the real listing, whatever its spelling).
            if row["listok"] == true && from_bytes(&row["list"]) != listing_text.as_bytes() {
                rep.count("listing_spelled_differently_from_model");
            }
            // M_C14: reload the listing, list again, compare listing and tokens
            let mut b = Interpreter::default();
            let mut reload_err = None;
            for l in &listing {
                let l = l.strip_suffix('\n').unwrap_or(l);
                if let Err(e) = b.start_evaluating(l) {
                    reload_err = Some(verif::error_info(&e).kind);
                }
            }
            let relisted = list_program(&mut b).unwrap_or_default().concat();
            let toks_a = a.verif_program_lines();
            let toks_b = b.verif_program_lines();
            let same_tokens = toks_a.len() == toks_b.len()
                && toks_a.iter().zip(&toks_b).all(|(x, y)| {
                    x.0 == y.0 && x.1.len() == y.1.len() && x.1.iter().zip(&y.1).all(|(p, q)| tok_same(p, q))
                });
            if reload_err.is_some() || relisted != listing_text || !same_tokens {
                let class = if reload_err.is_some() {
                    "listing_does_not_reload"
                } else if !same_tokens {
                    "reloaded_tokens_differ"
                } else {
                    "listing_not_a_fixed_point"
                };
                let kinds: Vec<&str> = real.toks.iter().map(|t| t.kind).collect();
                let has_inf = real.toks.iter().any(|t| t.num.map(|n| !n.is_finite()).unwrap_or(false));
                rep.violation(
                    "C14",
                    class,
                    json!({"token_kinds": kinds, "reload_err": reload_err, "has_non_finite_literal": has_inf}),
                    json!({"entered": bytes(&entered), "entered_text": entered, "listing": bytes(&listing_text), "listing_text": listing_text, "relisted_text": relisted}),
                );
            }
        }
    
}
