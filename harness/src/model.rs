//! Conversions between the implementation's observable data and the JSON
//! shapes of the TLA+ model (see /verif/spec: Num, Lexer, Abasic).
//!
//! Text crosses the boundary as arrays of bytes, numbers as the model's
//! `Num` records, line numbers as arrays of decimal digit bytes.

use abasic_core::verif::{Item, Tok, Val};
use serde_json::{json, Value as J};

pub const NMAX: i64 = (1 << 30) - 1;
pub const DMAX: i64 = 20;

pub fn bytes(s: &str) -> J {
    J::Array(s.as_bytes().iter().map(|b| json!(*b)).collect())
}

pub fn bytes_of(v: &[u8]) -> J {
    J::Array(v.iter().map(|b| json!(*b)).collect())
}

pub fn from_bytes(j: &J) -> Vec<u8> {
    j.as_array()
        .map(|a| a.iter().map(|x| x.as_u64().unwrap_or(0) as u8).collect())
        .unwrap_or_default()
}

pub fn text_of(j: &J) -> String {
    String::from_utf8_lossy(&from_bytes(j)).into_owned()
}

/// Decimal digits of a line number, as bytes.
pub fn key(n: u64) -> J {
    bytes(&n.to_string())
}

pub fn opaque() -> J {
    json!({"t": "o", "n": 0, "d": 0})
}

/// The model's `Num` record for an f64: exact dyadic in the small domain,
/// negative zero, NaN, an infinity, or opaque.
pub fn num(x: f64) -> J {
    if x == 0.0 {
        return if x.is_sign_negative() {
            json!({"t": "z", "n": 0, "d": 0})
        } else {
            json!({"t": "n", "n": 0, "d": 0})
        };
    }
    if x.is_nan() {
        return json!({"t": "nan", "n": 0, "d": 0});
    }
    if x.is_infinite() {
        return json!({"t": if x > 0.0 { "pinf" } else { "ninf" }, "n": 0, "d": 0});
    }
    let bits = x.to_bits();
    let sign: i64 = if (bits >> 63) != 0 { -1 } else { 1 };
    let exp_bits = ((bits >> 52) & 0x7ff) as i64;
    let frac = (bits & ((1u64 << 52) - 1)) as i64;
    let (mut m, mut e) = if exp_bits == 0 {
        (frac, -1074i64)
    } else {
        (frac | (1i64 << 52), exp_bits - 1075)
    };
    while m & 1 == 0 {
        m >>= 1;
        e += 1;
    }
    // value = sign * m * 2^e, m odd
    if e >= 0 {
        if e > 30 || m > (NMAX >> e) {
            return opaque();
        }
        json!({"t": "n", "n": sign * (m << e), "d": 0})
    } else {
        if -e > DMAX || m > NMAX {
            return opaque();
        }
        json!({"t": "n", "n": sign * m, "d": -e})
    }
}

pub fn is_opaque(n: &J) -> bool {
    n["t"] == "o"
}

/// Model number `m` agrees with implementation number `r`.
pub fn num_agrees(m: &J, r: &J) -> bool {
    is_opaque(m) || m == r
}

pub fn item(i: &Item) -> J {
    match i {
        Item::Str(s) => json!({"t": "s", "s": bytes(s), "v": num(0.0)}),
        Item::Num(n) => json!({"t": "n", "s": [], "v": num(*n)}),
    }
}

pub fn tok(t: &Tok) -> J {
    json!({
        "k": t.kind,
        "s": t.text.as_deref().map(bytes).unwrap_or(json!([])),
        "v": t.num.map(num).unwrap_or(num(0.0)),
        "items": t.items.iter().map(item).collect::<Vec<_>>(),
    })
}

pub fn toks(ts: &[Tok]) -> J {
    J::Array(ts.iter().map(tok).collect())
}

pub fn val(v: &Val) -> J {
    match v {
        Val::Str(s) => json!({"t": "s", "n": 0, "d": 0, "s": bytes(s)}),
        Val::Num(x) => {
            let n = num(*x);
            json!({"t": n["t"], "n": n["n"], "d": n["d"], "s": []})
        }
    }
}

pub fn item_agrees(m: &J, r: &J) -> bool {
    m["t"] == r["t"] && m["s"] == r["s"] && num_agrees(&m["v"], &r["v"])
}

/// Model token `m` agrees with implementation token `r` (opaque model numbers match anything).
pub fn tok_agrees(m: &J, r: &J) -> bool {
    if m["k"] != r["k"] || m["s"] != r["s"] || !num_agrees(&m["v"], &r["v"]) {
        return false;
    }
    let (mi, ri) = (m["items"].as_array(), r["items"].as_array());
    match (mi, ri) {
        (Some(a), Some(b)) => a.len() == b.len() && a.iter().zip(b).all(|(x, y)| item_agrees(x, y)),
        _ => false,
    }
}

pub fn toks_agree(m: &J, r: &J) -> bool {
    match (m.as_array(), r.as_array()) {
        (Some(a), Some(b)) => a.len() == b.len() && a.iter().zip(b).all(|(x, y)| tok_agrees(x, y)),
        _ => false,
    }
}

/// Equality of implementation tokens with NaN equal to NaN (bitwise on numbers).
pub fn tok_same(a: &Tok, b: &Tok) -> bool {
    fn num_same(x: Option<f64>, y: Option<f64>) -> bool {
        match (x, y) {
            (Some(p), Some(q)) => p.to_bits() == q.to_bits(),
            (None, None) => true,
            _ => false,
        }
    }
    a.kind == b.kind
        && a.text == b.text
        && num_same(a.num, b.num)
        && a.items.len() == b.items.len()
        && a.items.iter().zip(&b.items).all(|(x, y)| match (x, y) {
            (Item::Str(p), Item::Str(q)) => p == q,
            (Item::Num(p), Item::Num(q)) => p.to_bits() == q.to_bits(),
            _ => false,
        })
}

/// Extract the JSON payloads of `<<"TAG", "json">>` lines printed by TLC's PrintT.
pub fn tlc_rows<'a>(text: &'a str, tag: &'a str) -> impl Iterator<Item = String> + 'a {
    let prefix = format!("<<\"{}\", \"", tag);
    text.lines().filter_map(move |l| {
        let l = l.trim_end();
        if l.starts_with(&prefix) && l.ends_with("\">>") {
            let body = &l[prefix.len()..l.len() - 3];
            Some(unescape_tla(body))
        } else {
            None
        }
    })
}

pub fn unescape_tla(s: &str) -> String {
    let mut out = String::with_capacity(s.len());
    let mut it = s.chars();
    while let Some(c) = it.next() {
        if c == '\\' {
            match it.next() {
                Some('n') => out.push('\n'),
                Some('t') => out.push('\t'),
                Some('r') => out.push('\r'),
                Some('f') => out.push('\u{c}'),
                Some(o) => out.push(o),
                None => {}
            }
        } else {
            out.push(c);
        }
    }
    out
}
