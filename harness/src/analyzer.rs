//! C05 / C06 / C20: the static analyzer.  Observing SourceFileAnalyzer through
//! its public API (plus the hooks that name private enum variants), monitors
//! on its output, and the replay of MC_Analyzer rows.
use crate::model::*;
use crate::report::Report;
use abasic_core::verif;
use abasic_core::{DiagnosticMessage, SourceFileAnalyzer, TokenType};
use serde_json::{json, Value as J};
use std::panic::{catch_unwind, AssertUnwindSafe};

pub fn token_class(t: &TokenType) -> &'static str {
    match t {
        TokenType::Symbol => "symbol",
        TokenType::String => "string",
        TokenType::Number => "number",
        TokenType::Operator => "operator",
        TokenType::Comment => "comment",
        TokenType::Keyword => "keyword",
        TokenType::Delimiter => "delimiter",
        TokenType::Data => "data",
    }
}

pub struct Analysis {
    pub panicked: Option<String>,
    /// messages in order: {k, fline, err, some, a, b, sym:bool}
    pub msgs: Vec<J>,
    pub tokens: Vec<Vec<J>>,
    pub lines: Vec<String>,
    pub has_errors: bool,
    pub error_kinds: Vec<(usize, String)>,
}

pub fn analyze(text: &str) -> Analysis {
    let lines: Vec<String> = text.split('\n').map(|s| s.to_string()).collect();
    crate::session::IN_SUT.with(|f| f.set(true));
    let r = catch_unwind(AssertUnwindSafe(|| {
        let a = SourceFileAnalyzer::analyze(text.to_string());
        let mut msgs = vec![];
        let mut error_kinds = vec![];
        for m in a.messages() {
            let mapped = a.source_file_map().map_to_source(m);
            let (some, ml, ma, mb) = match &mapped {
                Some((l, r)) => (true, *l as i64, r.start, r.end),
                None => (false, -1, 0, 0),
            };
            let j = match m {
                DiagnosticMessage::Warning(fl, loc, text) => {
                    let k = if text.starts_with("Line has no line number") {
                        "warn_nonumber"
                    } else if text.starts_with("Redefinition") {
                        "warn_redefined"
                    } else if text.starts_with("Line contains no statements") {
                        "warn_empty"
                    } else if text.ends_with("is never defined.") {
                        "warn_undefined"
                    } else if text.ends_with("is never used.") {
                        "warn_unused"
                    } else {
                        "warn_other"
                    };
                    json!({"k": k, "fline": fl, "err": "", "some": some, "mline": ml, "a": ma, "b": mb, "sym": loc.is_some(), "text": text})
                }
                DiagnosticMessage::Error(fl, err) => {
                    let info = verif::error_info(err);
                    error_kinds.push((*fl, info.kind.clone()));
                    json!({"k": "error", "fline": fl, "err": info.kind, "some": some, "mline": ml, "a": ma, "b": mb, "sym": false, "text": ""})
                }
            };
            msgs.push(j);
        }
        let tokens: Vec<Vec<J>> = a
            .token_types()
            .iter()
            .map(|l| l.iter().map(|(t, r)| json!({"c": token_class(t), "a": r.start, "b": r.end})).collect())
            .collect();
        (msgs, tokens, error_kinds)
    }));
    crate::session::IN_SUT.with(|f| f.set(false));
    match r {
        Ok((msgs, tokens, error_kinds)) => Analysis { panicked: None, has_errors: !error_kinds.is_empty(), msgs, tokens, lines, error_kinds },
        Err(p) => {
            let msg = p.downcast_ref::<String>().cloned().or_else(|| p.downcast_ref::<&str>().map(|s| s.to_string())).unwrap_or_default();
            Analysis { panicked: Some(msg), msgs: vec![], tokens: vec![], lines, has_errors: false, error_kinds: vec![] }
        }
    }
}

/// M_C05: monitors on the analyzer's own output; returns (class, features).
pub fn c05_monitors(an: &Analysis) -> Vec<(&'static str, J)> {
    let mut v = vec![];
    if let Some(msg) = &an.panicked {
        let site = if msg.contains("Expected error to have a numbered program line") { "explicit_panic_error_location" } else if msg.contains("unwrap") { "unwrap_none" } else { "other" };
        v.push(("analysis_panicked", json!({"site": site})));
        return v;
    }
    if an.tokens.len() != an.lines.len() {
        v.push(("token_list_count", json!({"lists": an.tokens.len(), "lines": an.lines.len()})));
    }
    for m in &an.msgs {
        if m["some"] != true {
            v.push(("diagnostic_unmappable", json!({"k": m["k"]})));
            continue;
        }
        let fl = m["fline"].as_u64().unwrap_or(u64::MAX) as usize;
        if m["mline"].as_i64() != Some(fl as i64) || fl >= an.lines.len() {
            v.push(("diagnostic_on_wrong_line", json!({"k": m["k"]})));
            continue;
        }
        let line = &an.lines[fl];
        let (a, b) = (m["a"].as_u64().unwrap() as usize, m["b"].as_u64().unwrap() as usize);
        if a > b || b > line.len() {
            v.push(("diagnostic_out_of_bounds", json!({"k": m["k"], "err": m["err"]})));
        } else if !line.is_char_boundary(a) || !line.is_char_boundary(b) {
            v.push(("diagnostic_splits_character", json!({"k": m["k"], "err": m["err"]})));
        }
    }
    for (i, toks) in an.tokens.iter().enumerate() {
        let mut prev = 0usize;
        for (j, t) in toks.iter().enumerate() {
            let (a, b) = (t["a"].as_u64().unwrap() as usize, t["b"].as_u64().unwrap() as usize);
            if a >= b || b > an.lines.get(i).map(|l| l.len()).unwrap_or(0) || (j > 0 && a < prev) {
                v.push(("token_ranges_malformed", json!({})));
                break;
            }
            prev = b;
        }
    }
    v
}

fn msg_key(m: &J) -> String {
    format!("{}|{}|{}|{}|{}|{}", m["k"].as_str().unwrap_or(""), m["fline"], m["err"].as_str().unwrap_or(""), m["some"], m["a"], m["b"])
}

pub fn replay_rows(tlc_out: &str, rep: &mut Report) {
    for payload in tlc_rows(tlc_out, "ROW") {
        let Ok(row) = serde_json::from_str::<J>(&payload) else { continue };
        rep.count("rows");
        rep.ctx = Some(json!({"sub": "ana-replay", "row": payload}));
        let text = text_of(&row["text"]);
        let an = analyze(&text);
        rep.sample(json!({"file": text, "model_messages": row["msgs"].as_array().map(|a| a.iter().map(|m| json!([m["k"], m["fline"], m["err"]])).collect::<Vec<_>>())}));
        for (class, feat) in c05_monitors(&an) {
            rep.violation("C05", class, feat, json!({"file": bytes(&text), "file_text": text, "panic": an.panicked}));
        }
        if an.panicked.is_some() {
            continue;
        }
        // pi: ordered messages (file pass + static pass), symbol warnings as a multiset, token classes
        let real_ordered: Vec<String> = an.msgs.iter().filter(|m| m["sym"] != true).map(msg_key).collect();
        let model_ordered: Vec<String> = row["msgs"].as_array().unwrap().iter().map(msg_key).collect();
        let mut real_sym: Vec<String> = an.msgs.iter().filter(|m| m["sym"] == true).map(msg_key).collect();
        let mut model_sym: Vec<String> = row["symmsgs"].as_array().unwrap().iter().map(msg_key).collect();
        real_sym.sort();
        model_sym.sort();
        let tokens_ok = row["tokens"].as_array().map(|t| t.len()) == Some(an.tokens.len())
            && row["tokens"].as_array().unwrap().iter().zip(&an.tokens).all(|(m, r)| m.as_array().map(|a| a.len()) == Some(r.len()) && m.as_array().unwrap().iter().zip(r).all(|(x, y)| x["c"] == y["c"] && x["a"] == y["a"] && x["b"] == y["b"]));
        if real_ordered != model_ordered || real_sym != model_sym || !tokens_ok {
            let what = if !tokens_ok { "tokens" } else if real_ordered != model_ordered { "messages" } else { "symbol_warnings" };
            let real_errs: Vec<&String> = real_ordered.iter().filter(|m| m.starts_with("error")).collect();
            let model_errs: Vec<&String> = model_ordered.iter().filter(|m| m.starts_with("error")).collect();
            rep.violation("ANALYZER", "analysis_differs_from_model", json!({"what": what, "errors_differ": real_errs != model_errs}),
                json!({"file": bytes(&text), "file_text": text, "expected": {"msgs": model_ordered, "sym": model_sym}, "observed": {"msgs": real_ordered, "sym": real_sym}}));
        } else if !an.msgs.is_empty() {
            rep.count("rows_nontrivial");
        }
    }
}

// ---------------------------------------------------------------------------
// Implementation -> spec: random files analysed by the real analyzer.
use rand::rngs::StdRng;
use rand::{Rng, SeedableRng};
use std::io::Write;

const FILE_LINES: &[&str] = &[
    "10 X = 1", "10", "10 PRINT 1 +", "10 PRINT \"", "20 PRINT X", "PRINT 1", "", "30 é", "30 A = 1.2.3", "20 GOTO 99", "20 GOTO 10",
    "40 PRINT \"é\" + 1", "50 REM é 😊", "15 FOR I = 1 TO 2: NEXT I\r", "20 DEF F(X) = X: PRINT F(Y)", "60 A$ = 1", "  70 END",
    "20 Y = A$ = B$", "80 IF X THEN 10 ELSE 20", "80 IF X THEN PRINT \"日本\" ELSE GOSUB 10", "90 DIM A(3): A(1) = 2: PRINT A(1)",
    "90 READ A, B$: DATA 1, \"x\"", "95 INPUT Q$", "95 NEXT", "97 PRINT F(1)", "98 S$ = S$ = T$", "99 PRINT +\"A\"", "\t", "   ", "10 😊", "5 DATA é, \"é\": PRINT \"é\" - 1",
    "\u{feff}10 PRINT \"€\";X", "\u{feff}20 REM é", "\u{feff}", "\u{feff}PRINT 1", "30 PRINT \"\u{feff}\" + 1",
    "２０ PRINT 1", "1０ PRINT 2", "① x", "² y", "١٠ PRINT 1", " ２ REM", "10 PRINT ２",
    "18446744073709551615 END", "18446744073709551616 END", "0 PRINT", "7 FOR I$ = 1 TO 2", "8 NEXT I$", "9 PRINT NOT \"a\" + 1", "9 PRINT (1", "10 X = ",
];

pub fn random_file(rng: &mut StdRng) -> String {
    // mostly short files; one in 80 is long (20-60 lines), and long files may hold very long
    // lines (dozens of tokens, several hundred columns)
    let long_file = rng.gen_bool(0.012);
    let n = if long_file { rng.gen_range(20..=60) } else { rng.gen_range(0..=7) };
    let mut lines: Vec<String> = vec![];
    for _ in 0..n {
        if rng.gen_bool(0.75) {
            lines.push(FILE_LINES[rng.gen_range(0..FILE_LINES.len())].to_string());
        } else {
            let l = crate::lexrec::random_line(rng);
            lines.push(if rng.gen_bool(0.8) { format!("{} {}", rng.gen_range(1..100) * 10, l) } else { l });
        }
        if long_file && rng.gen_bool(0.05) {
            // a very long line: many items, a long string with multi-byte text, and maybe an error at its far end
            let k = rng.gen_range(40..=90);
            let mut l = format!("{} PRINT ", rng.gen_range(1..70000u32));
            for j in 0..k { l.push_str(["1;", "X9;", "\"é\";", "A$;", "2+3;", "Q(1);"][j % 6]); }
            l.push_str(["", "+", "\"", "é", " : GOTO 99999", " : Y = \"s\" + 1"][rng.gen_range(0..6)]);
            let last = lines.len() - 1;
            lines[last] = l;
        }
        // indentation before the line number (blanks, tabs) and a CR at the end must not move any range
        if rng.gen_bool(0.2) {
            let ind = [" ", "  ", "\t", "   ", " \t "][rng.gen_range(0..5)];
            let last = lines.len() - 1;
            lines[last] = format!("{}{}", ind, lines[last]);
        }
        if rng.gen_bool(0.1) {
            let last = lines.len() - 1;
            lines[last].push('\r');
        }
    }
    lines.join("\n")
}

pub fn event_of(text: &str) -> J {
    let an = analyze(text);
    let strip = |m: &J| json!({"k": m["k"], "fline": m["fline"], "err": m["err"], "some": m["some"], "a": m["a"], "b": m["b"]});
    json!({
        "text": bytes(text), "panicked": an.panicked.is_some(),
        "msgs": an.msgs.iter().filter(|m| m["sym"] != true).map(strip).collect::<Vec<_>>(),
        "symmsgs": an.msgs.iter().filter(|m| m["sym"] == true).map(strip).collect::<Vec<_>>(),
        "ntok": an.tokens.len(),
    })
}

pub fn record(seed: u64, n: usize, out: &str, rep: &mut Report) {
    let mut rng = StdRng::seed_from_u64(seed);
    let mut f = std::io::BufWriter::new(std::fs::File::create(out).expect("create trace"));
    for _ in 0..n {
        let text = random_file(&mut rng);
        let an = analyze(&text);
        for (class, feat) in c05_monitors(&an) {
            rep.violation("C05", class, feat, json!({"file": bytes(&text), "file_text": text, "panic": an.panicked}));
        }
        rep.count("files");
        rep.sample(json!({"file": text}));
        writeln!(f, "{}", event_of(&text)).unwrap();
    }
}
