//! Implementation -> spec for C02: random expression trees (up to a dozen
//! operators) rendered with minimal / redundant parentheses and printed by the
//! real interpreter; one ndjson event each, judged by Trace_Expr.tla.
use crate::model::*;
use crate::session::*;
use rand::rngs::StdRng;
use rand::{Rng, SeedableRng};
use serde_json::{json, Value as J};
use std::io::Write;

#[derive(Clone)]
pub enum Tree {
    Num(f64, String),
    Str(String),
    Var(String),
    Un(&'static str, Box<Tree>),
    Fun(&'static str, Box<Tree>),
    Bin(&'static str, Box<Tree>, Box<Tree>),
}

const BIN: &[(&str, &str, u8)] = &[
    ("or", "OR", 1), ("and", "AND", 2), ("equals", "=", 3), ("notequals", "<>", 3), ("lessthan", "<", 3),
    ("lessthanorequalto", "<=", 3), ("greaterthan", ">", 3), ("greaterthanorequalto", ">=", 3),
    ("plus", "+", 4), ("minus", "-", 4), ("multiply", "*", 5), ("divide", "/", 5), ("caret", "^", 6),
];
const UN: &[(&str, &str)] = &[("plus", "+"), ("minus", "-"), ("not", "NOT")];

fn bin_info(k: &str) -> (&'static str, u8) {
    let e = BIN.iter().find(|b| b.0 == k).unwrap();
    (e.1, e.2)
}

fn prec(t: &Tree) -> u8 {
    match t {
        Tree::Bin(k, _, _) => bin_info(k).1,
        Tree::Un(_, _) => 7,
        _ => 8,
    }
}

pub fn gen(rng: &mut StdRng, ops: u32) -> Tree {
    if ops == 0 {
        return match rng.gen_range(0..10) {
            0..=5 => {
                let xs = [("0", 0.0), ("1", 1.0), ("2", 2.0), ("3", 3.0), ("0.5", 0.5), ("4", 4.0), ("10", 10.0), ("0.25", 0.25), ("2000", 2000.0), ("1101", 1101.0)];
                let (s, v) = xs[rng.gen_range(0..xs.len())];
                Tree::Num(v, s.to_string())
            }
            6 => Tree::Var(["X", "X", "QN", "QP"][rng.gen_range(0..4)].to_string()),
            7 => Tree::Var(["U", "U", "QN", "QM"][rng.gen_range(0..4)].to_string()),
            8 => Tree::Str(["", "A", "B", "5"][rng.gen_range(0..4)].to_string()),
            _ => Tree::Var(["S$", "U$", "R5$"][rng.gen_range(0..3)].to_string()),
        };
    }
    match rng.gen_range(0..10) {
        0 => Tree::Un(UN[rng.gen_range(0..3)].0, Box::new(gen(rng, ops - 1))),
        1 => Tree::Fun(["ABS", "INT"][rng.gen_range(0..2)], Box::new(gen(rng, ops - 1))),
        _ => {
            let left = rng.gen_range(0..ops);
            let k = BIN[rng.gen_range(0..BIN.len())].0;
            Tree::Bin(k, Box::new(gen(rng, left)), Box::new(gen(rng, ops - 1 - left)))
        }
    }
}

pub fn render(t: &Tree, red: bool) -> String {
    let sub = |c: &Tree, need: bool| if red || need { format!("({})", render(c, red)) } else { render(c, red) };
    match t {
        Tree::Num(_, s) => s.clone(),
        Tree::Str(s) => format!("\"{}\"", s),
        Tree::Var(s) => s.clone(),
        Tree::Un(k, c) => {
            let sym = UN.iter().find(|u| u.0 == *k).unwrap().1;
            format!("{} {}", sym, sub(c, matches!(**c, Tree::Bin(..) | Tree::Un(..))))
        }
        Tree::Fun(name, c) => format!("{}({})", name, render(c, red)),
        Tree::Bin(k, l, r) => {
            let (sym, p) = bin_info(k);
            format!("{} {} {}", sub(l, prec(l) < p), sym, sub(r, prec(r) <= p))
        }
    }
}

fn tok_leaf(k: &str, s: &str, v: f64) -> J {
    json!(["leaf", {"k": k, "s": bytes(s), "v": num(v), "items": []}])
}

pub fn tree_json(t: &Tree) -> J {
    match t {
        Tree::Num(v, _) => tok_leaf("numericliteral", "", *v),
        Tree::Str(s) => tok_leaf("stringliteral", s, 0.0),
        Tree::Var(s) => tok_leaf("symbol", s, 0.0),
        Tree::Un(k, c) => json!(["un", k, tree_json(c)]),
        Tree::Fun(n, c) => json!(["fn", bytes(n), tree_json(c)]),
        Tree::Bin(k, l, r) => json!(["bin", k, tree_json(l), tree_json(r)]),
    }
}

fn observe(expr: &str) -> J {
    let mut s = Sess::new(false, false);
    for l in ["X = 2.5", "S$ = \"B\"", "QN = -8 ^ .5", "QP = 0 ^ -1", "QM = -QP", "1 DATA 5", "READ R5$"] {
        s.apply(&call_submit(l));
    }
    let ev = s.apply(&call_submit(&format!("PRINT {}", expr)));
    let mut text = String::new();
    for o in ev["out"].as_array().into_iter().flatten() {
        if o["t"] == "print" {
            text.push_str(&text_of(&o["text"]));
        }
    }
    let err = if ev["panic"] == true {
        "PANIC".to_string()
    } else if ev["res"]["ok"] == true {
        String::new()
    } else {
        ev["res"]["kind"].as_str().unwrap_or("").to_string()
    };
    json!({"text": bytes(&text), "err": err})
}

pub fn record(seed: u64, n: usize, out: &str) {
    let mut rng = StdRng::seed_from_u64(seed);
    let mut f = std::io::BufWriter::new(std::fs::File::create(out).expect("create trace"));
    for _ in 0..n {
        let ops = rng.gen_range(2..=12);
        let t = gen(&mut rng, ops);
        let (min, red) = (render(&t, false), render(&t, true));
        let ev = json!({"tree": tree_json(&t), "min": bytes(&min), "red": bytes(&red), "omin": observe(&min), "ored": observe(&red)});
        writeln!(f, "{}", ev).unwrap();
    }
}

/// The leaves of C02: a numeral means the double nearest to it.  Inside the model's exact domain
/// `Num!F64Value` says which one; outside it the model cannot compute the value, and Rust's own
/// `str::parse::<f64>` (correctly rounded) stands in as the evaluator of that operator.  Every
/// length up to 24 digits with the dot anywhere, printed alone, negated and compared with itself.
pub fn literals(seed: u64, n: usize, rep: &mut crate::report::Report) {
    let mut rng = StdRng::seed_from_u64(seed ^ 0x11fe);
    for _ in 0..n {
        let len = rng.gen_range(1..=24);
        let dot = if rng.gen_bool(0.8) { Some(rng.gen_range(0..=len)) } else { None };
        let mut lit = String::new();
        for k in 0..len {
            if dot == Some(k) { lit.push('.'); }
            lit.push((b'0' + rng.gen_range(0..10u8)) as char);
        }
        if lit.starts_with('.') && lit.len() == 1 { continue; }
        let Ok(v) = lit.parse::<f64>() else { continue };
        rep.count("literals");
        let spaced: String = lit.chars().flat_map(|c| if rng.gen_bool(0.2) { vec![c, ' '] } else { vec![c] }).collect();
        for (expr, expect) in [(lit.clone(), format!("{}\n", v)), (format!("- {}", lit), format!("{}\n", -v)), (format!("{} = {}", spaced, lit), "1\n".to_string())] {
            let o = observe(&expr);
            let text = text_of(&o["text"]);
            if o["err"] != "" || text != expect {
                rep.violation("C02", "literal_not_correctly_rounded", json!({"digits": len}),
                    json!({"expr": expr, "expected_text": expect, "observed_text": text, "observed_error": o["err"]}));
                break;
            }
        }
    }
}

/// FOR / NEXT with bounds and steps outside the exact domain (C03).  The specification's rule
/// (Abasic.tla ExecNext: the variable becomes `current + step`; the loop goes round again iff that
/// is `<= limit` for a step that is not negative, `>= limit` otherwise; the body runs at least once)
/// is evaluated here in IEEE doubles -- the model cannot, 0.6 is not a dyadic -- and compared with
/// what the interpreter prints.
pub fn for_steps(seed: u64, n: usize, rep: &mut crate::report::Report) {
    let mut rng = StdRng::seed_from_u64(seed ^ 0xF0A5);
    let vals = ["0", "1", "2", "3", "4", "5", "10", "0.1", "0.3", "0.7", "1.1", "2.5", "-1", "-2.2", "100", "0.9", "3.3"];
    let steps = ["0.1", "0.2", "0.3", "0.4", "0.6", "0.7", "0.9", "1.1", "1.3", "2.3", "-0.1", "-0.3", "-0.4", "-0.7", "-1.1", "0.05", "0.15", "-0.15", "0.35", "1", "-1", "0.5", "3"];
    for _ in 0..n {
        let (a, b, st) = (vals[rng.gen_range(0..vals.len())], vals[rng.gen_range(0..vals.len())], steps[rng.gen_range(0..steps.len())]);
        let (fa, fb, fs): (f64, f64, f64) = (a.parse().unwrap(), b.parse().unwrap(), st.parse().unwrap());
        // reference
        let mut expect = String::new();
        let mut x = fa;
        let mut count = 0;
        loop {
            expect.push_str(&format!("{}\n", x));
            x += fs;
            count += 1;
            let cont = if fs >= 0.0 { x <= fb } else { x >= fb };
            if !cont || count > 400 { break; }
        }
        if count > 400 { continue; }
        expect.push_str(&format!("E{}\n", x));
        rep.count("loops");
        let lines = vec![format!("10 FOR X={} TO {} STEP {}:PRINT X:NEXT X", a, b, st), "20 PRINT \"E\";X".to_string()];
        let o = crate::c06::run_text_full(&lines, &["1"], 1, 3000);
        if o.panicked || !o.ok || o.printed != expect {
            rep.violation("C03", "for_loop_differs_from_reference", json!({"step": st}),
                json!({"program": lines, "expected": expect, "observed": o.printed, "error": o.kind, "panicked": o.panicked}));
        }
    }
}
