//! A seeded generator of structured BASIC programs over the statements C03
//! lists, compiled to numbered text.  Programs terminate (loops have constant
//! bounds, backward jumps are counted) and compute in the model's exact
//! number domain (small integers, halves and quarters) except where an
//! inexact operation is injected on purpose.
use rand::rngs::StdRng;
use rand::Rng;

pub struct Gen<'a> {
    pub rng: &'a mut StdRng,
    lines: Vec<String>,          // statement text per line, with @Lk@ label references
    labels: Vec<usize>,          // label id -> index into lines
    subs: Vec<Vec<String>>,      // subroutine bodies (emitted after END)
    sub_labels: Vec<usize>,      // label id of each subroutine's first line
    loop_vars: Vec<&'static str>,
    counters: usize,
    pub with_input: bool,
    pub with_stop: bool,
    pub fail_rate: f64,
    has_data: bool,
    fns: Vec<(&'static str, usize)>,
}

const NUM_VARS: &[&str] = &["A", "B", "C", "D", "E"];
const STR_VARS: &[&str] = &["S$", "T$"];
const LOOP_VARS: &[&str] = &["I", "J", "K", "L"];

impl<'a> Gen<'a> {
    pub fn new(rng: &'a mut StdRng) -> Self {
        Gen { rng, lines: vec![], labels: vec![], subs: vec![], sub_labels: vec![], loop_vars: vec![], counters: 0,
              with_input: false, with_stop: false, fail_rate: 0.04, has_data: false, fns: vec![] }
    }

    fn pick<'b, T: Copy>(&mut self, xs: &'b [T]) -> T {
        xs[self.rng.gen_range(0..xs.len())]
    }

    fn small(&mut self) -> String {
        let xs = ["0", "1", "2", "3", "4", "5", "7", "10", "0.5", "1.5", "0.25", "12", "100"];
        self.pick(&xs).to_string()
    }

    fn num_atom(&mut self) -> String {
        match self.rng.gen_range(0..10) {
            0..=3 => self.small(),
            4..=6 => self.pick(NUM_VARS).to_string(),
            7 => {
                if let Some(v) = self.loop_vars.last() { v.to_string() } else { self.small() }
            }
            8 => if self.rng.gen_bool(0.8) { format!("P({})", self.rng.gen_range(0..=10)) } else { format!("P(P({}))", self.rng.gen_range(0..=3)) },
            _ => {
                if !self.fns.is_empty() && self.rng.gen_bool(0.5) {
                    let (name, arity) = self.fns[self.rng.gen_range(0..self.fns.len())];
                    let args: Vec<String> = (0..arity).map(|_| self.small()).collect();
                    format!("{}({})", name, args.join(","))
                } else {
                    format!("Q({},{})", self.rng.gen_range(0..=3), self.rng.gen_range(0..=3))
                }
            }
        }
    }

    pub fn num_expr(&mut self, depth: u32) -> String {
        if depth == 0 || self.rng.gen_bool(0.35) {
            return self.num_atom();
        }
        let a = self.num_expr(depth - 1);
        let b = self.num_expr(depth - 1);
        match self.rng.gen_range(0..16) {
            0..=3 => format!("{}+{}", a, b),
            4..=5 => format!("{}-{}", a, b),
            6..=7 => format!("{}*{}", a, self.small()),
            8 => format!("{}/{}", a, self.pick(&["2", "4", "0.5", "8"])),
            9 => format!("({})", a),
            10 => format!("INT({})", a),
            11 => format!("ABS({})", a),
            12 => format!("-{}", self.num_atom()),
            13 => format!("{}^{}", self.pick(&["2", "3", "A", "0.5"]), self.pick(&["2", "3", "0", "1"])),
            14 => format!("({}) * ({})", a, b),
            _ => {
                if self.rng.gen_bool(self.fail_rate) {
                    format!("{}/{}", a, self.pick(&["3", "0", "(A-A)"]))
                } else {
                    format!("{}+{}", a, b)
                }
            }
        }
    }

    fn str_expr(&mut self) -> String {
        match self.rng.gen_range(0..5) {
            0 => format!("\"{}\"", self.pick(&["X", "HI", "", "a b", "Z9"])),
            1 => self.pick(STR_VARS).to_string(),
            2 => format!("R$({})", self.rng.gen_range(0..=4)),
            _ => format!("\"{}\"", self.pick(&["Y", "NO", "OK"])),
        }
    }

    pub fn cond(&mut self) -> String {
        let a = self.num_expr(1);
        let b = self.num_expr(1);
        let op = self.pick(&["=", "<", ">", "<=", ">=", "<>"]);
        match self.rng.gen_range(0..8) {
            0 => format!("{} {} {} AND {} > 0", a, op, b, self.pick(NUM_VARS)),
            1 => format!("{} {} {} OR {}", a, op, b, self.pick(NUM_VARS)),
            2 => format!("NOT {}", self.pick(NUM_VARS)),
            3 => format!("{} = {}", self.str_expr(), self.str_expr()),
            4 => self.pick(NUM_VARS).to_string(),
            5 => self.str_expr(),
            _ => format!("{} {} {}", a, op, b),
        }
    }

    fn simple(&mut self) -> String {
        let k = self.rng.gen_range(0..24);
        match k {
            0..=4 => format!("{} = {}", self.pick(NUM_VARS), self.num_expr(2)),
            5 => format!("LET {} = {}", self.pick(NUM_VARS), self.num_expr(1)),
            6 => format!("{} = {}", self.pick(STR_VARS), self.str_expr()),
            7..=10 => {
                let n = self.rng.gen_range(1..=3);
                let mut s = String::from(if self.rng.gen_bool(0.1) { "? " } else { "PRINT " });
                for i in 0..n {
                    if self.rng.gen_bool(0.3) { s.push_str(&self.str_expr()); } else { s.push_str(&self.num_expr(1)); }
                    if i + 1 < n { s.push_str(self.pick(&[";", ",", " ", ";"])); }
                }
                if self.rng.gen_bool(0.2) { s.push(';'); }
                s
            }
            11 => format!("P({}) = {}", self.rng.gen_range(0..=10), self.num_expr(1)),
            12 => format!("Q({},{}) = {}", self.rng.gen_range(0..=3), self.rng.gen_range(0..=3), self.num_expr(1)),
            13 => format!("R$({}) = {}", self.rng.gen_range(0..=4), self.str_expr()),
            14 => {
                if self.has_data {
                    let v = if self.rng.gen_bool(0.7) { self.pick(NUM_VARS) } else { self.pick(STR_VARS) };
                    if self.rng.gen_bool(0.3) { format!("READ {}, {}", v, self.pick(STR_VARS)) } else { format!("READ {}", v) }
                } else {
                    "REM nothing".to_string()
                }
            }
            15 => if self.has_data { "RESTORE".to_string() } else { "PRINT".to_string() },
            16 => if self.with_input && self.rng.gen_bool(0.5) { "INPUT A : INPUT B".to_string() } else { "REM comment: with colon".to_string() },
            17 => {
                if self.with_input {
                    format!("INPUT {}", if self.rng.gen_bool(0.7) { self.pick(NUM_VARS).to_string() } else { format!("P({})", self.rng.gen_range(0..5)) })
                } else {
                    format!("{} = {} + 1", self.pick(NUM_VARS), self.pick(NUM_VARS))
                }
            }
            18 => if self.with_stop {
                if self.rng.gen_bool(0.3) { format!("IF {} THEN STOP ELSE PRINT \"N\"", self.pick(&["1", "A = A", "0"])) } else { "STOP".to_string() }
            } else { "PRINT \"-\";".to_string() },
            19 => {
                if self.rng.gen_bool(self.fail_rate * 4.0) {
                    self.pick(&["NEXT Z", "RETURN", "P(11) = 1", "A = \"X\"", "GOTO 7", "READ Z9", "DIM P(5)", "X = 1 +", "PRINT )", "S$ = 3", "Q(1) = 2", "A = 1/0", "A = P(-1)", "ZZ(1) = \"X\"", "N$(2) = 5", "W4(1,1,1,1) = \"X\""]).to_string()
                } else {
                    format!("{} = {} * 2", self.pick(NUM_VARS), self.pick(NUM_VARS))
                }
            }
            20 => format!("T3({},{},{}) = {}", self.rng.gen_range(0..3), self.rng.gen_range(0..3), self.rng.gen_range(0..3), self.small()),
            21 => format!("PRINT T3({},{},{})", self.rng.gen_range(0..3), self.rng.gen_range(0..3), self.rng.gen_range(0..3)),
            _ => format!("{} = {}", self.pick(NUM_VARS), self.num_expr(2)),
        }
    }

    fn new_label(&mut self) -> usize {
        self.labels.push(usize::MAX);
        self.labels.len() - 1
    }

    fn emit(&mut self, s: String) {
        self.lines.push(s);
    }

    fn place(&mut self, label: usize) {
        self.labels[label] = self.lines.len();
    }

    fn block(&mut self, depth: u32, len: usize) {
        for _ in 0..len {
            let k = self.rng.gen_range(0..20);
            match k {
                0..=8 => {
                    // one line, possibly several statements
                    let n = if self.rng.gen_bool(0.3) { self.rng.gen_range(2..=3) } else { 1 };
                    let parts: Vec<String> = (0..n).map(|_| self.simple()).collect();
                    self.emit(parts.join(" : "));
                }
                9..=11 if depth > 0 && self.loop_vars.len() < LOOP_VARS.len() => {
                    let v = LOOP_VARS[self.loop_vars.len()];
                    let own_to = format!("{}+2", v);
                    let (from, to, step) = match self.rng.gen_range(0..7) {
                        6 if self.rng.gen_bool(0.5) => ("5", "1", " STEP 0"),      // runs once: a zero step counts as positive
                        6 => ("1", own_to.as_str(), ""),       // the limit reads the loop variable's value from BEFORE the loop
                        0 => ("1", "3", ""),
                        1 => ("0", "2", " STEP 1"),
                        2 => ("3", "1", " STEP -1"),
                        3 => ("1", "2", " STEP 0.5"),
                        4 => ("5", "1", ""),          // body runs once
                        _ => ("1", "A", " STEP 2"),
                    };
                    let head = format!("FOR {} = {} TO {}{}", v, from, to, step);
                    self.loop_vars.push(v);
                    if self.rng.gen_bool(0.08) {
                        // a delay loop: no body at all
                        self.emit(format!("{} : NEXT {}", head, v));
                    } else if self.rng.gen_bool(0.25) {
                        // whole loop on one line
                        let body = self.simple();
                        self.emit(format!("{} : {} : NEXT {}", head, body, v));
                    } else {
                        self.emit(head);
                        let n = self.rng.gen_range(1..=3);
                        self.block(depth - 1, n);
                        // sometimes NEXT of an outer loop from the inner one
                        if self.loop_vars.len() >= 2 && self.rng.gen_bool(0.15) {
                            let outer = self.loop_vars[self.loop_vars.len() - 2];
                            self.emit(format!("NEXT {}", outer));
                        } else {
                            self.emit(format!("NEXT {}", v));
                        }
                    }
                    self.loop_vars.pop();
                }
                12..=13 => {
                    // IF with statement(s) and maybe ELSE
                    let c = self.cond();
                    let t = self.simple();
                    if self.rng.gen_bool(0.5) {
                        let e = self.simple();
                        if self.rng.gen_bool(0.3) {
                            let e2 = self.simple();
                            self.emit(format!("IF {} THEN {} ELSE {} : {}", c, t, e, e2));
                        } else {
                            self.emit(format!("IF {} THEN {} ELSE {}", c, t, e));
                        }
                    } else if self.rng.gen_bool(0.3) {
                        let t2 = self.simple();
                        self.emit(format!("IF {} THEN {} : {}", c, t, t2));
                    } else {
                        self.emit(format!("IF {} THEN {}", c, t));
                    }
                }
                14 => {
                    // conditional forward jump over a few lines
                    let l = self.new_label();
                    let c = self.cond();
                    if self.rng.gen_bool(0.5) {
                        self.emit(format!("IF {} THEN @L{}@", c, l));
                    } else {
                        let l2 = self.new_label();
                        self.emit(format!("IF {} THEN @L{}@ ELSE @L{}@", c, l, l2));
                        let s0 = self.simple_owned(); self.emit(s0);
                        self.place(l2);
                    }
                    let n = self.rng.gen_range(1..=2);
                    self.block(depth.saturating_sub(1), n);
                    self.place(l);
                    self.emit("REM target".to_string());
                }
                15 => {
                    // counted backward jump
                    self.counters += 1;
                    let cv = format!("K{}", self.counters);
                    let l = self.new_label();
                    self.place(l);
                    let n = self.rng.gen_range(1..=2);
                    self.block(depth.saturating_sub(1), n);
                    let lim = self.rng.gen_range(2..=3); self.emit(format!("{} = {} + 1 : IF {} < {} THEN GOTO @L{}@", cv, cv, cv, lim, l));
                }
                16..=17 if self.subs.len() < 4 => {
                    // subroutine call; the THEN GOSUB ... ELSE form is included on purpose
                    let l = self.new_label();
                    let n = self.rng.gen_range(1..=2);
                    let mut body: Vec<String> = (0..n).map(|_| self.simple()).collect();
                    if self.rng.gen_bool(0.2) && !self.sub_labels.is_empty() {
                        let inner = self.sub_labels[self.rng.gen_range(0..self.sub_labels.len())];
                        body.push(format!("GOSUB @L{}@", inner));
                    }
                    body.push("RETURN".to_string());
                    self.subs.push(body);
                    self.sub_labels.push(l);
                    match self.rng.gen_range(0..4) {
                        0 => { let c = self.cond(); let e = self.simple(); self.emit(format!("IF {} THEN GOSUB @L{}@ ELSE {}", c, l, e)); }
                        1 => { let s = self.simple(); let t = self.pick(&["PRINT \"R\"", "A = A + 1"]); self.emit(format!("{} : GOSUB @L{}@ : {}", s, l, t)); }
                        _ => self.emit(format!("GOSUB @L{}@", l)),
                    }
                }
                18 if !self.sub_labels.is_empty() => {
                    let l = self.sub_labels[self.rng.gen_range(0..self.sub_labels.len())];
                    self.emit(format!("GOSUB @L{}@", l));
                }
                _ => {
                    let s = self.simple();
                    self.emit(s);
                }
            }
        }
    }

    fn simple_owned(&mut self) -> String {
        self.simple()
    }

    /// Generate one program; returns its lines ("10 ...", "20 ...").
    pub fn program(&mut self) -> Vec<String> {
        // preamble: DIMs, DEFs, DATA
        if self.rng.gen_bool(0.6) {
            self.emit("DIM Q(3,3)".to_string());
        }
        if self.rng.gen_bool(0.4) {
            self.emit("DIM T3(2,2,2) : DIM R$(4)".to_string());
        }
        if self.rng.gen_bool(0.5) {
            self.emit("DEF FNA(X) = X * 2 + 1".to_string());
            self.fns.push(("FNA", 1));
            if self.rng.gen_bool(0.5) {
                // dynamic scoping: FNB reads X of its caller's frame
                self.emit("DEF FNB(Y) = FNA(Y) + X + Y : DEF FNC(X, Y) = FNB(X) - Y".to_string());
                self.fns.push(("FNB", 1));
                self.fns.push(("FNC", 2));
            }
        }
        if self.rng.gen_bool(0.4) {
            // a function that fails inside a nested call when given 0 (used by inspections typed at breakpoints)
            self.emit("DEF FND(Z) = 1/Z : DEF FNE(Z) = FND(Z) + 1".to_string());
        }
        self.has_data = self.rng.gen_bool(0.6);
        let data_first = self.rng.gen_bool(0.5);
        let data_lines = vec![
            "DATA 1, 2, 3.5, \"s\", word".to_string(),
            "DATA 10, -4 : DATA \"a,b\", 7, 0.25, x y".to_string(),
        ];
        if self.has_data && data_first {
            self.emit(data_lines[0].clone());
        }
        let n = self.rng.gen_range(4..=10);
        self.block(2, n);
        if self.rng.gen_bool(0.1) {
            // recursion to the frame cap
            let l = self.new_label();
            self.place(l);
            self.emit(format!("N = N + 1 : PRINT N; : GOSUB @L{}@", l));
        }
        self.emit("END".to_string());
        for i in 0..self.subs.len() {
            let l = self.sub_labels[i];
            self.place(l);
            for s in self.subs[i].clone() {
                self.emit(s);
            }
        }
        if self.has_data {
            if !data_first {
                self.emit(data_lines[0].clone());
            }
            self.emit(data_lines[1].clone());
        }
        // number the lines and patch the labels
        let step = if self.rng.gen_bool(0.8) { 10 } else { 5 };
        let numbers: Vec<u64> = (0..self.lines.len() as u64 + 1).map(|i| (i + 1) * step).collect();
        let mut out = vec![];
        for (i, l) in self.lines.iter().enumerate() {
            let mut text = l.clone();
            for (id, idx) in self.labels.iter().enumerate() {
                let tag = format!("@L{}@", id);
                if text.contains(&tag) {
                    let target = if *idx == usize::MAX || *idx >= self.lines.len() { 9999 } else { numbers[*idx] };
                    text = text.replace(&tag, &target.to_string());
                }
            }
            out.push(format!("{} {}", numbers[i], text));
        }
        out
    }
}
