//! C20: the real `abasic-lsp` process driven over stdio (JSON-RPC with
//! Content-Length framing).
use crate::analyzer::analyze;
use crate::model::*;
use crate::report::Report;
use serde_json::{json, Value as J};
use std::io::{BufRead, BufReader, Read, Write};
use std::process::{Child, ChildStdin, Command, Stdio};
use std::sync::mpsc::{channel, Receiver};
use std::time::Duration;

pub struct Server {
    child: Child,
    stdin: ChildStdin,
    rx: Receiver<J>,
    next_id: u64,
    pub backlog: Vec<J>,
}

impl Server {
    /// What a client may offer in its `initialize` request.  The server never announces a
    /// `positionEncoding`, so whatever is offered, positions stay in UTF-16 units.
    pub fn client_capabilities(variant: u64) -> J {
        match variant % 4 {
            0 => json!({}),
            1 => json!({"general": {"positionEncodings": ["utf-16"]}}),
            2 => json!({"general": {"positionEncodings": ["utf-8", "utf-16"]}}),
            _ => json!({"general": {"positionEncodings": ["utf-32", "utf-8"]}, "textDocument": {"semanticTokens": {"requests": {"full": true}, "tokenTypes": ["comment", "string"], "tokenModifiers": [], "formats": ["relative"]}}}),
        }
    }

    pub fn start(bin: &str) -> Option<Server> {
        Self::start_with(bin, 0)
    }

    pub fn start_with(bin: &str, variant: u64) -> Option<Server> {
        let mut child = Command::new(bin).env("RUST_BACKTRACE", "0").stdin(Stdio::piped()).stdout(Stdio::piped()).stderr(Stdio::null()).spawn().ok()?;
        let stdin = child.stdin.take()?;
        let stdout = child.stdout.take()?;
        let (tx, rx) = channel();
        std::thread::spawn(move || {
            let mut r = BufReader::new(stdout);
            loop {
                let mut len = 0usize;
                loop {
                    let mut line = String::new();
                    if r.read_line(&mut line).unwrap_or(0) == 0 {
                        return;
                    }
                    let l = line.trim_end();
                    if l.is_empty() {
                        break;
                    }
                    if let Some(v) = l.strip_prefix("Content-Length: ") {
                        len = v.parse().unwrap_or(0);
                    }
                }
                let mut buf = vec![0u8; len];
                if r.read_exact(&mut buf).is_err() {
                    return;
                }
                if let Ok(j) = serde_json::from_slice::<J>(&buf) {
                    if tx.send(j).is_err() {
                        return;
                    }
                }
            }
        });
        let mut s = Server { child, stdin, rx, next_id: 1, backlog: vec![] };
        let id = s.request("initialize", json!({"processId": null, "rootUri": null, "capabilities": Self::client_capabilities(variant)}));
        let reply = s.wait(|m| m["id"] == json!(id))?;
        // a server that negotiated another encoding would have to say so here; then UTF-16 columns would not be owed
        if let Some(enc) = reply["result"]["capabilities"]["positionEncoding"].as_str() {
            if enc != "utf-16" {
                return Self::start_with(bin, 0);
            }
        }
        s.notify("initialized", json!({}));
        Some(s)
    }

    fn send(&mut self, msg: J) -> bool {
        let body = msg.to_string();
        self.stdin.write_all(format!("Content-Length: {}\r\n\r\n{}", body.len(), body).as_bytes()).is_ok() && self.stdin.flush().is_ok()
    }
    pub fn request(&mut self, method: &str, params: J) -> u64 {
        let id = self.next_id;
        self.next_id += 1;
        self.send(json!({"jsonrpc": "2.0", "id": id, "method": method, "params": params}));
        id
    }
    pub fn notify(&mut self, method: &str, params: J) {
        self.send(json!({"jsonrpc": "2.0", "method": method, "params": params}));
    }
    /// Wait (up to 10 s) for a message satisfying `pred`; others are kept in the backlog.
    pub fn wait(&mut self, pred: impl Fn(&J) -> bool) -> Option<J> {
        if let Some(p) = self.backlog.iter().position(|m| pred(m)) {
            return Some(self.backlog.remove(p));
        }
        let deadline = std::time::Instant::now() + Duration::from_secs(10);
        loop {
            let left = deadline.checked_duration_since(std::time::Instant::now())?;
            match self.rx.recv_timeout(left) {
                Ok(m) => {
                    if pred(&m) {
                        return Some(m);
                    }
                    self.backlog.push(m);
                }
                Err(_) => return None,
            }
        }
    }
    pub fn alive(&mut self) -> bool {
        matches!(self.child.try_wait(), Ok(None))
    }
    pub fn open(&mut self, uri: &str, text: &str) -> Option<J> {
        self.notify("textDocument/didOpen", json!({"textDocument": {"uri": uri, "languageId": "basic", "version": 1, "text": text}}));
        self.wait(|m| m["method"] == "textDocument/publishDiagnostics" && m["params"]["uri"] == uri)
    }
    pub fn change(&mut self, uri: &str, text: &str) -> Option<J> {
        self.notify("textDocument/didChange", json!({"textDocument": {"uri": uri, "version": 2}, "contentChanges": [{"text": text}]}));
        self.wait(|m| m["method"] == "textDocument/publishDiagnostics" && m["params"]["uri"] == uri)
    }
    pub fn tokens(&mut self, uri: &str) -> Option<J> {
        let id = self.request("textDocument/semanticTokens/full", json!({"textDocument": {"uri": uri}}));
        self.wait(|m| m["id"] == json!(id))
    }
    pub fn stop(mut self) {
        let id = self.request("shutdown", json!(null));
        let _ = self.wait(|m| m["id"] == json!(id));
        self.notify("exit", json!(null));
        let _ = self.child.kill();
        let _ = self.child.wait();
    }
}

fn utf16_len(s: &str) -> u64 {
    s.encode_utf16().count() as u64
}

/// Diagnostics of a publishDiagnostics message as sorted (line, a, b, sev).
pub fn diag_tuples(msg: &J) -> Vec<(u64, u64, u64, u64)> {
    let mut v: Vec<(u64, u64, u64, u64)> = msg["params"]["diagnostics"].as_array().into_iter().flatten().map(|d| {
        (d["range"]["start"]["line"].as_u64().unwrap_or(u64::MAX), d["range"]["start"]["character"].as_u64().unwrap_or(u64::MAX),
         d["range"]["end"]["character"].as_u64().unwrap_or(u64::MAX), d["severity"].as_u64().unwrap_or(0))
    }).collect();
    v.sort();
    v
}

/// M_C20 on a diagnostics reply, against the text alone and against the in-process analyzer.
pub fn check_diags(text: &str, msg: &J) -> Vec<(&'static str, J)> {
    let mut out = vec![];
    let lines: Vec<&str> = text.split('\n').collect();
    let got = diag_tuples(msg);
    for d in msg["params"]["diagnostics"].as_array().into_iter().flatten() {
        let (sl, el) = (d["range"]["start"]["line"].as_u64().unwrap_or(u64::MAX), d["range"]["end"]["line"].as_u64().unwrap_or(u64::MAX));
        let (a, b) = (d["range"]["start"]["character"].as_u64().unwrap_or(u64::MAX), d["range"]["end"]["character"].as_u64().unwrap_or(u64::MAX));
        if sl != el || sl as usize >= lines.len() {
            out.push(("diagnostic_on_missing_line", json!({})));
        } else if a > b || b > utf16_len(lines[sl as usize]) {
            out.push(("diagnostic_column_out_of_bounds", json!({"non_ascii_line": !lines[sl as usize].is_ascii()})));
        }
    }
    // the set of diagnostics equals the analyzer's messages for that text
    let an = analyze(text);
    if an.panicked.is_none() {
        let mut want: Vec<(u64, u64, u64, u64)> = an.msgs.iter().filter(|m| m["some"] == true).map(|m| {
            let l = m["mline"].as_u64().unwrap() as usize;
            let line = lines.get(l).copied().unwrap_or("");
            let conv = |b: u64| utf16_len(line.get(..b as usize).unwrap_or(line));
            (l as u64, conv(m["a"].as_u64().unwrap()), conv(m["b"].as_u64().unwrap()), if m["k"] == "error" { 1 } else { 2 })
        }).collect();
        want.sort();
        if want != got {
            out.push(("diagnostics_differ_from_analyzer", json!({"non_ascii": !text.is_ascii()})));
        }
    }
    out
}

/// M_C20 on a semantic tokens reply.
pub fn check_tokens(text: &str, msg: &J) -> Vec<(&'static str, J)> {
    let mut out = vec![];
    let lines: Vec<&str> = text.split('\n').collect();
    let Some(data) = msg["result"]["data"].as_array() else {
        return vec![("tokens_reply_malformed", json!({}))];
    };
    let (mut line, mut start, mut prev_end) = (0u64, 0u64, 0u64);
    for (i, t) in data.chunks(5).enumerate() {
        let v: Vec<u64> = t.iter().map(|x| x.as_u64().unwrap_or(u64::MAX)).collect();
        if v.len() != 5 || v.iter().any(|x| *x > 1 << 31) {
            out.push(("token_encoding_malformed", json!({})));
            break;
        }
        if v[0] > 0 {
            line += v[0];
            start = v[1];
            prev_end = 0;
        } else {
            start += v[1];
        }
        if line as usize >= lines.len() {
            out.push(("token_on_missing_line", json!({})));
            break;
        }
        if v[2] == 0 || start + v[2] > utf16_len(lines[line as usize]) {
            out.push(("token_column_out_of_bounds", json!({"non_ascii_line": !lines[line as usize].is_ascii()})));
        }
        if i > 0 && v[0] == 0 && start < prev_end {
            out.push(("tokens_overlap", json!({})));
        }
        if v[3] >= 8 {
            out.push(("token_type_outside_legend", json!({})));
        }
        prev_end = start + v[2];
    }
    out
}

pub fn replay_rows(tlc_out: &str, bin: &str, rep: &mut Report) {
    let mut server = Server::start(bin);
    let mut n = 0u64;
    for payload in tlc_rows(tlc_out, "ROW") {
        let Ok(row) = serde_json::from_str::<J>(&payload) else { continue };
        rep.count("rows");
        rep.ctx = Some(json!({"sub": "lsp-replay", "row": payload}));
        n += 1;
        if n % 150 == 0 {
            server = None;          // a fresh server, greeted by the next kind of client
        }
        if server.is_none() {
            server = Server::start_with(bin, n / 150);
        }
        let Some(srv) = server.as_mut() else {
            rep.violation("C20", "server_does_not_start", json!({}), json!({}));
            break;
        };
        let reqs = row["reqs"].as_array().cloned().unwrap_or_default();
        let mut texts: std::collections::HashMap<String, String> = Default::default();
        let mut last: Option<J> = None;
        let mut last_kind = String::new();
        let mut dead = false;
        let desc: Vec<String> = reqs.iter().map(|r| format!("{} {} {:?}", r["k"].as_str().unwrap_or(""), r["uri"].as_str().unwrap_or(""), text_of(&r["text"]))).collect();
        for r in &reqs {
            // two documents are two documents even when their URIs share a path and differ only in
            // scheme and query (what an editor opens for a diff view): every other row spells them so
            let name = r["uri"].as_str().unwrap_or("");
            let uri = if n % 2 == 1 {
                if name == "u1" { format!("file:///r{}/doc.bas", n) } else { format!("git:/r{}/doc.bas?ref=HEAD&{}", n, name) }
            } else {
                format!("file:///r{}/{}", n, name)
            };
            let text = text_of(&r["text"]);
            let k = r["k"].as_str().unwrap_or("");
            let reply = match k {
                "open" => { texts.insert(uri.clone(), text.clone()); srv.open(&uri, &text) }
                "change" => { texts.insert(uri.clone(), text.clone()); srv.change(&uri, &text) }
                _ => srv.tokens(&uri),
            };
            let Some(reply) = reply else {
                rep.violation("C20", "server_died_or_silent", json!({"request": k, "alive": srv.alive()}), json!({"requests": desc, "raw_requests": reqs}));
                dead = true;
                break;
            };
            // monitors on every reply
            let problems = if k == "tokens" {
                if reply.get("error").is_some() { vec![] } else { check_tokens(texts.get(&uri).map(|s| s.as_str()).unwrap_or(""), &reply) }
            } else {
                check_diags(&text, &reply)
            };
            for (class, feat) in problems {
                rep.violation("C20", class, feat, json!({"requests": desc, "raw_requests": reqs, "reply": reply}));
            }
            last_kind = k.to_string();
            last = Some(reply);
        }
        if dead {
            if let Some(s) = server.take() { s.stop(); }
            continue;
        }
        rep.sample(json!({"requests": desc, "model_reply": row["reply"]}));
        // pi: the last reply against the model's
        let Some(reply) = last else { continue };
        let m = &row["reply"];
        let ok = match m["k"].as_str().unwrap_or("") {
            "diagnostics" => {
                let mut want: Vec<(u64, u64, u64, u64)> = m["diags"].as_array().unwrap().iter().map(|d| (d["line"].as_u64().unwrap(), d["a"].as_u64().unwrap(), d["b"].as_u64().unwrap(), d["sev"].as_u64().unwrap())).collect();
                want.sort();
                want == diag_tuples(&reply)
            }
            "tokens" => reply["result"]["data"] == m["toks"],
            _ => reply.get("error").is_some(),
        };
        if !ok {
            rep.violation("C20", "reply_differs_from_model", json!({"request": last_kind}), json!({"requests": desc, "raw_requests": reqs, "expected": m, "observed": reply}));
        } else {
            rep.count("rows_nontrivial");
        }
    }
    if let Some(s) = server { s.stop(); }
}

/// Implementation -> spec: random documents through one long-lived server; one event per request.
pub fn record(seed: u64, n: usize, bin: &str, out: &str, rep: &mut Report) {
    use rand::rngs::StdRng;
    use rand::{Rng, SeedableRng};
    let mut rng = StdRng::seed_from_u64(seed);
    let mut f = std::io::BufWriter::new(std::fs::File::create(out).expect("create trace"));
    let mut server = Server::start_with(bin, seed);
    let uris = ["file:///a.bas", "file:///b.bas", "file:///c%20d.bas", "git:/a.bas?ref=HEAD", "untitled:a.bas"];
    let mut open: std::collections::HashMap<&str, String> = Default::default();
    writeln!(f, "{}", json!({"k": "reset", "uri": "", "text": [], "diags": [], "toks": [], "err": false})).unwrap();
    for _ in 0..n {
        if server.is_none() {
            server = Server::start_with(bin, seed + rng.gen_range(0..4));
            open.clear();
            writeln!(f, "{}", json!({"k": "reset", "uri": "", "text": [], "diags": [], "toks": [], "err": false})).unwrap();
        }
        let Some(srv) = server.as_mut() else { break };
        let uri = uris[rng.gen_range(0..uris.len())];
        let want_tokens = rng.gen_bool(0.3);
        let (k, text, reply) = if want_tokens {
            ("tokens", String::new(), srv.tokens(uri))
        } else {
            let text = crate::analyzer::random_file(&mut rng);
            if open.contains_key(uri) && rng.gen_bool(0.8) { open.insert(uri, text.clone()); ("change", text.clone(), srv.change(uri, &text)) }
            else { open.insert(uri, text.clone()); ("open", text.clone(), srv.open(uri, &text)) }
        };
        rep.count("requests");
        let Some(reply) = reply else {
            rep.violation("C20", "server_died_or_silent", json!({"request": k, "alive": srv.alive()}), json!({"request": k, "uri": uri, "text": bytes(&text), "text_text": text}));
            if let Some(s) = server.take() { s.stop(); }
            continue;
        };
        let problems = if k == "tokens" {
            if reply.get("error").is_some() { vec![] } else { check_tokens(open.get(uri).map(|s| s.as_str()).unwrap_or(""), &reply) }
        } else {
            check_diags(&text, &reply)
        };
        for (class, feat) in problems {
            rep.violation("C20", class, feat, json!({"request": k, "uri": uri, "text": bytes(open.get(uri).map(|s| s.as_str()).unwrap_or("")), "reply": reply}));
        }
        let diags: Vec<J> = diag_tuples(&reply).iter().map(|d| json!({"line": d.0, "a": d.1, "b": d.2, "sev": d.3})).collect();
        let toks = reply["result"]["data"].as_array().cloned().unwrap_or_default();
        writeln!(f, "{}", json!({"k": k, "uri": uri, "text": bytes(&text), "diags": if k == "tokens" { vec![] } else { diags }, "toks": toks, "err": reply.get("error").is_some()})).unwrap();
        rep.sample(json!({"request": k, "uri": uri, "document": text}));
    }
    if let Some(s) = server { s.stop(); }
}
