//! C15: the real `abasic` binary in file mode and in interactive mode (pipes,
//! NO_COLOR, scratch HOME), and the analyzer's loader against line-by-line entry.
use crate::lexrows::list_program;
use crate::model::*;
use crate::report::Report;
use crate::session::*;
use abasic_core::{Interpreter, SourceFileAnalyzer};
use serde_json::{json, Value as J};
use std::io::Write;
use std::process::{Command, Stdio};

const ERROR_TEXTS: &[(&str, &str)] = &[
    ("SYNTAX ERROR (ILLEGAL CHARACTER)", "syntax_tokenization_illegal_character"),
    ("SYNTAX ERROR (UNTERMINATED STRING)", "syntax_tokenization_unterminated_string"),
    ("SYNTAX ERROR (INVALID NUMBER)", "syntax_tokenization_invalid_number"),
    ("SYNTAX ERROR (UNEXPECTED TOKEN)", "syntax_unexpected_token"),
    ("SYNTAX ERROR (EXPECTED TOKEN", "syntax_expected_token"),
    ("SYNTAX ERROR (UNEXPECTED END OF INPUT)", "syntax_unexpected_end_of_input"),
    ("DATA TYPE MISMATCH", "data_type_mismatch"),
    ("TYPE MISMATCH", "type_mismatch"),
    ("UNDEF'D STATEMENT ERROR", "undefined_statement"),
    ("OUT OF MEMORY ERROR (STACK OVERFLOW)", "out_of_memory_stack_overflow"),
    ("OUT OF MEMORY ERROR (ARRAY TOO LARGE)", "out_of_memory_array_too_large"),
    ("RETURN WITHOUT GOSUB ERROR", "return_without_gosub"),
    ("NEXT WITHOUT FOR ERROR", "next_without_for"),
    ("OUT OF DATA ERROR", "out_of_data"),
    ("UNIMPLEMENTED ERROR", "unimplemented"),
    ("BAD SUBSCRIPT ERROR", "bad_subscript"),
    ("ILLEGAL QUANTITY ERROR", "illegal_quantity"),
    ("DIVISION BY ZERO ERROR", "division_by_zero"),
    ("REDIM'D ARRAY ERROR", "redimensioned_array"),
    ("CAN'T CONTINUE ERROR", "cannot_continue"),
    ("ILLEGAL DIRECT ERROR", "illegal_direct"),
];

pub fn error_kind_of_text(first_line: &str) -> String {
    ERROR_TEXTS.iter().find(|(t, _)| first_line.starts_with(t)).map(|(_, k)| k.to_string()).unwrap_or_else(|| "other".to_string())
}

fn in_line(text: &str) -> J {
    // "... IN 30" / "... IN 30: ..." -> digits of the line number
    if let Some(pos) = text.find(" IN ") {
        let digits: String = text[pos + 4..].chars().take_while(|c| c.is_ascii_digit()).collect();
        if !digits.is_empty() {
            return bytes(&digits);
        }
    }
    json!([])
}

/// stderr text -> records [k, line, err] (static-analysis chatter of file mode is dropped)
pub fn parse_stderr(text: &str) -> Vec<J> {
    let mut out = vec![];
    let mut in_static = false;
    for l in text.lines() {
        if l.starts_with("| ") || l == "|" {
            continue;
        }
        if l.starts_with("Warning on line ") {
            continue;
        }
        if l.starts_with("Errors were encountered when analyzing") {
            in_static = true;
            continue;
        }
        if l.starts_with("Please fix the above errors") {
            in_static = false;
            continue;
        }
        if in_static {
            continue;
        }
        if l.starts_with("WARNING") {
            out.push(json!({"k": "warning", "line": in_line(l.split(": ").next().unwrap_or(l)), "err": ""}));
        } else if l.starts_with("BREAK") {
            out.push(json!({"k": "break", "line": in_line(l), "err": ""}));
        } else if l == "EXTRA IGNORED" {
            out.push(json!({"k": "extra", "line": [], "err": ""}));
        } else if l == "REENTER" {
            out.push(json!({"k": "reenter", "line": [], "err": ""}));
        } else if let Some((_, kind)) = ERROR_TEXTS.iter().find(|(t, _)| l.starts_with(t)) {
            out.push(json!({"k": "error", "line": in_line(l), "err": kind}));
        } else {
            out.push(json!({"k": "other", "line": [], "err": l}));
        }
    }
    out
}

pub struct CliRun {
    pub out: Vec<u8>,
    pub err: Vec<J>,
    pub exit: i64,
    pub raw_err: String,
}

pub fn run_cli(bin: &str, args: &[String], stdin: &str, strip_banner: bool, scratch: &str) -> CliRun {
    let mut child = Command::new(bin)
        .args(args)
        .env("NO_COLOR", "1")
        .env("RUST_BACKTRACE", "0")
        .env("HOME", scratch)
        .stdin(Stdio::piped())
        .stdout(Stdio::piped())
        .stderr(Stdio::piped())
        .spawn()
        .expect("spawn abasic");
    child.stdin.take().unwrap().write_all(stdin.as_bytes()).ok();
    let o = child.wait_with_output().expect("wait abasic");
    let mut out = o.stdout;
    if strip_banner {
        // "Welcome to ...\nPress CTRL-C to exit.\n"
        for _ in 0..2 {
            if let Some(p) = out.iter().position(|b| *b == b'\n') {
                out.drain(..=p);
            }
        }
    }
    let raw_err = String::from_utf8_lossy(&o.stderr).into_owned();
    use std::os::unix::process::ExitStatusExt;
    let exit = o.status.code().map(|c| c as i64).unwrap_or_else(|| -(o.status.signal().unwrap_or(0) as i64));
    CliRun { out, err: parse_stderr(&raw_err), exit, raw_err }
}

fn side_json(r: &CliRun) -> J {
    json!({"out": bytes_of(&r.out), "out_text": String::from_utf8_lossy(&r.out), "err": r.err, "exit": r.exit})
}

fn err_eq(model: &J, real: &[J]) -> bool {
    let m = model.as_array().cloned().unwrap_or_default();
    m.len() == real.len() && m.iter().zip(real).all(|(a, b)| a["k"] == b["k"] && a["line"] == b["line"] && (a["k"] != "error" || a["err"] == b["err"]))
}

pub fn replay_rows(tlc_out: &str, bin: &str, scratch: &str, rep: &mut Report) {
    std::fs::create_dir_all(scratch).ok();
    for payload in tlc_rows(tlc_out, "ROW") {
        let Ok(row) = serde_json::from_str::<J>(&payload) else { continue };
        rep.count("rows");
        rep.ctx = Some(json!({"sub": "cli-replay", "row": payload}));
        let lines: Vec<String> = row["lines"].as_array().unwrap().iter().map(text_of).collect();
        let replies: Vec<String> = row["replies"].as_array().unwrap().iter().map(text_of).collect();
        let mut opts: Vec<String> = vec![];
        if row["w"] == true { opts.push("-w".into()); }
        if row["t"] == true { opts.push("-t".into()); }
        let mut fopts = opts.clone();
        if row["s"] == true { fopts.push("-s".into()); }
        let file = format!("{}/prog.bas", scratch);
        std::fs::write(&file, lines.join("\n")).unwrap();
        fopts.push(file.clone());
        let f = run_cli(bin, &fopts, &replies.iter().map(|r| format!("{}\n", r)).collect::<String>(), false, scratch);
        let typed: String = lines.iter().map(|l| format!("{}\n", l)).collect::<String>() + "RUN\n" + &replies.iter().map(|r| format!("{}\n", r)).collect::<String>();
        let t = run_cli(bin, &opts, &typed, true, scratch);
        let desc = json!({"program": lines, "options": {"w": row["w"], "t": row["t"], "s": row["s"]}, "replies": replies});
        rep.sample(json!({"case": desc, "file_mode_stdout": String::from_utf8_lossy(&f.out), "interactive_stdout": String::from_utf8_lossy(&t.out)}));
        if f.exit < 0 || t.exit < 0 || f.exit == 101 || t.exit == 101 {
            rep.violation("C15", "cli_crashed", json!({"file_exit": f.exit, "interactive_exit": t.exit}), json!({"case": desc, "file_stderr": f.raw_err, "interactive_stderr": t.raw_err}));
            continue;
        }
        // M_C15: the real binary against itself
        if row["comparable"] == true {
            rep.count("cases_compared");
            if f.out != t.out || f.err != t.err || f.exit != t.exit {
                let what = if f.out != t.out { "stdout" } else if f.err != t.err { "stderr" } else { "exit" };
                rep.violation("C15", "file_mode_differs_from_interactive", json!({"what": what, "w": row["w"], "t": row["t"], "s": row["s"]}),
                    json!({"case": desc, "file": side_json(&f), "interactive": side_json(&t)}));
            }
        }
        // pi: each mode against the model's prediction
        for (name, real, model) in [("file", &f, &row["file"]), ("interactive", &t, &row["interactive"])] {
            if model["known"] != true {
                rep.count("predictions_inexact");
                continue;
            }
            if from_bytes(&model["out"]) != real.out || !err_eq(&model["err"], &real.err) || model["exit"].as_i64() != Some(real.exit) {
                let what = if from_bytes(&model["out"]) != real.out { "stdout" } else if !err_eq(&model["err"], &real.err) { "stderr" } else { "exit" };
                rep.violation("C15", "cli_differs_from_model", json!({"mode": name, "what": what}),
                    json!({"case": desc, "expected": {"out_text": text_of(&model["out"]), "err": model["err"], "exit": model["exit"]}, "observed": side_json(real)}));
            } else {
                rep.count("rows_nontrivial");
            }
        }
        // core half: the analyzer's loader vs typing the lines in
        if row["comparable"] == true || row["static_errors"] == true {
            let text = lines.join("\n");
            let loaded = std::panic::catch_unwind(|| SourceFileAnalyzer::analyze(text).into_interpreter());
            let Ok(mut a) = loaded else {
                rep.violation("C15", "loader_panicked", json!({}), json!({"case": desc}));
                continue;
            };
            let mut b = Interpreter::default();
            for l in &lines {
                let _ = b.start_evaluating(l);
            }
            let (la, lb) = (list_program(&mut a).unwrap_or_default(), list_program(&mut b).unwrap_or_default());
            let (ta, tb) = (a.verif_program_lines(), b.verif_program_lines());
            let same_tokens = ta.len() == tb.len() && ta.iter().zip(&tb).all(|(x, y)| x.0 == y.0 && x.1.len() == y.1.len() && x.1.iter().zip(&y.1).all(|(p, q)| tok_same(p, q)));
            // and they run alike
            let run = |it: Interpreter| -> Vec<String> {
                let mut s = Sess { interp: it, dead: false, last_line: None };
                let mut tr = crate::sessrec::Transcript::default();
                let mut ev = s.apply(&call_submit("RUN"));
                tr.absorb(&ev);
                let mut n = 0;
                let mut ri = 0;
                while !s.dead && s.mode() != "idle" && n < 600 {
                    ev = if s.mode() == "awaiting" {
                        let r = replies.get(ri).cloned().unwrap_or("1".into());
                        ri += 1;
                        s.apply(&call_provide(&r))
                    } else if s.mode() == "running" {
                        s.apply(&call_simple("continue"))
                    } else {
                        break;
                    };
                    tr.absorb(&ev);
                    n += 1;
                }
                tr.items
            };
            let (ra, rb) = (run(a), run(b));
            if la != lb || !same_tokens || ra != rb {
                let what = if la != lb { "listing" } else if !same_tokens { "tokens" } else { "run" };
                rep.violation("C15", "loaded_program_differs_from_typed", json!({"what": what}), json!({"case": desc, "loaded_listing": la, "typed_listing": lb, "loaded_run": ra, "typed_run": rb}));
            } else {
                rep.count("loads_compared");
            }
        }
    }
}

/// Implementation -> spec: generated programs (no RND: the CLI seeds from the clock)
/// x random options, through the real binary both ways.
pub fn record(seed: u64, n: usize, bin: &str, scratch: &str, out: &str, rep: &mut Report) {
    use rand::rngs::StdRng;
    use rand::{Rng, SeedableRng};
    std::fs::create_dir_all(scratch).ok();
    let mut f = std::io::BufWriter::new(std::fs::File::create(out).expect("create trace"));
    for shift in 0..3usize {
        // files of more than 64 KiB (three of them, shifted by 0 / 1 / 2 bytes so that every power-of-two offset falls inside a character in one of them), dense with two- and three-byte characters (so that any fixed-size
        // read buffer splits one of them): judged by the file-vs-interactive comparison only
        let mut big: Vec<String> = vec![format!("1 REM {}", "x".repeat(shift))];
        for k in 1..=820u32 {
            big.push(format!("{} PRINT \"{}{}\";{}", k * 10, "é".repeat(20 + (k % 7) as usize), "€日".repeat(6), k % 10));
        }
        let file = format!("{}/big.bas", scratch);
        std::fs::write(&file, big.join("\n")).unwrap();
        let fr = run_cli(bin, &[file], "", false, scratch);
        let typed: String = big.iter().map(|l| format!("{}\n", l)).collect::<String>() + "RUN\n";
        let tr = run_cli(bin, &[], &typed, true, scratch);
        rep.count("big_files");
        if fr.out != tr.out || fr.exit != tr.exit {
            let at = fr.out.iter().zip(tr.out.iter()).position(|(a, b)| a != b).unwrap_or(fr.out.len().min(tr.out.len()));
            rep.violation("C15", "file_mode_differs_from_interactive", json!({"what": "stdout", "big_file": true}),
                json!({"program": "820 lines of PRINT with multi-byte text, 80 KiB", "shift": shift, "first_difference_at_output_byte": at, "file_exit": fr.exit, "interactive_exit": tr.exit}));
        }
    }
    for i in 0..n as u64 {
        let mut rng = StdRng::seed_from_u64(seed.wrapping_mul(1_000_003).wrapping_add(i));
        let lines = {
            let mut g = crate::progs::Gen::new(&mut rng);
            g.with_input = true;
            g.fail_rate = 0.03;
            let mut ls = g.program();
            // text that runs to the physical end of a line must survive loading: trailing blanks,
            // a REM, a DATA item whose quote is never closed (read and printed by the last line)
            for l in ls.iter_mut() {
                if rng.gen_bool(0.15) {
                    l.push_str(["  ", " ", "\t", "   "][rng.gen_range(0..4)]);
                }
            }
            if rng.gen_bool(0.15) {
                // a line longer than 255 bytes
                ls.push(format!("9990 PRINT \"{}\";{}", "long".repeat(70), "1;".repeat(20)));
            }
            if rng.gen_bool(0.3) {
                ls.insert(0, "1 DATA \"Q   ".to_string());
                ls.insert(1, "2 READ Z9$:PRINT Z9$;\"|\"".to_string());
                ls.insert(2, "3 REM [   ".to_string());
            }
            ls
        };
        let (w, t, s) = (rng.gen_bool(0.5), rng.gen_bool(0.5), rng.gen_bool(0.5));
        let replies: Vec<String> = (0..30).map(|_| ["5", "0", "7", "12", "3"][rng.gen_range(0..5)].to_string()).collect();
        let mut opts: Vec<String> = vec![];
        if w { opts.push("-w".into()); }
        if t { opts.push("-t".into()); }
        let mut fopts = opts.clone();
        if s { fopts.push("-s".into()); }
        let file = format!("{}/gen.bas", scratch);
        std::fs::write(&file, lines.join("\n")).unwrap();
        fopts.push(file);
        let rs: String = replies.iter().map(|r| format!("{}\n", r)).collect();
        let fr = run_cli(bin, &fopts, &rs, false, scratch);
        let typed: String = lines.iter().map(|l| format!("{}\n", l)).collect::<String>() + "RUN\n" + &rs;
        let tr = run_cli(bin, &opts, &typed, true, scratch);
        rep.count("programs");
        let side = |r: &CliRun| json!({"out": bytes_of(&r.out), "err": r.err, "exit": r.exit});
        let ev = json!({"lines": lines.iter().map(|l| bytes(l)).collect::<Vec<_>>(), "w": w, "t": t, "s": s,
                        "replies": replies.iter().map(|r| bytes(r)).collect::<Vec<_>>(), "file": side(&fr), "interactive": side(&tr)});
        rep.sample(json!({"program": lines, "options": [w, t, s]}));
        writeln!(f, "{}", ev).unwrap();
    }
}
