#!/bin/sh
# usage: tools/confirm_seed.sh <name> <dir with patch.diff + demo.rs> [cargo test extra args, e.g. "--features verif-hooks"]
# Confirms in a scratch worktree: (1) with the patch the existing suite passes, (2) the demo fails with it, (3) passes without.
NAME="$1"; SRC="$2"; EXTRA="$3"
WT=/tmp/cs/$NAME
rm -rf "$WT"; mkdir -p /tmp/cs
git -C /repo worktree add -q --detach "$WT" HEAD || exit 2
cd "$WT" || exit 2
export RUST_BACKTRACE=0 CARGO_NET_OFFLINE=true
git apply "$SRC/patch.diff" || { echo "CONFIRM $NAME: patch does not apply"; cd /; git -C /repo worktree remove --force "$WT"; exit 2; }
SUITE=$(cargo test --workspace --offline 2>&1 | grep -E "^test result" | awk '{p+=$4; f+=$6} END {print p" passed "f" failed"}')
cp "$SRC/demo.rs" abasic-core/tests/seed_demo.rs
WITH=$(cargo test -p abasic-core --test seed_demo --offline $EXTRA 2>&1 | grep -E "^test result" | tail -1)
git apply -R "$SRC/patch.diff"
WITHOUT=$(cargo test -p abasic-core --test seed_demo --offline $EXTRA 2>&1 | grep -E "^test result" | tail -1)
echo "CONFIRM $NAME: suite-with-patch: $SUITE | demo-with-patch: $WITH | demo-without: $WITHOUT"
cd /; git -C /repo worktree remove --force "$WT"
