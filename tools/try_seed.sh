#!/bin/sh
# usage: tools/try_seed.sh <patch.diff> <ID> [<ID> ...]
# Apply a seeded change to /repo, run the quick checks of the given properties, undo the change.
PATCH="$1"; shift
git -C /repo apply "$PATCH" || { echo "patch does not apply"; exit 2; }
for id in "$@"; do
  echo "=== $id"
  /verif/check "$id" --tier quick 2>&1 | grep -E "VIOLATION|KNOWN-FINDING|TOOL-ERROR|held|class=" | head -8
done
git -C /repo checkout -- .
git -C /repo status --short | head -3
