#!/usr/bin/env python3
"""Bind the Page model to abasic-web/ts/main.ts by extraction: read the handler bodies and derive the protocol
facts the model is parameterised by.  Prints JSON:
  {"bound": bool, "loader_checks_error": bool, "loader_skips_blank": bool, "loader_skips_unnumbered": bool, "arms": {...}}
`bound` is false when a handler no longer has the shape the transliteration (harness/src/web.rs, spec/Web.tla)
was written from; the check then judges the adapter under the last known protocol and says so in its evidence."""
import json, re, sys

src = open(sys.argv[1] if len(sys.argv) > 1 else "/repo/abasic-web/ts/main.ts").read()


def body(name):
    m = re.search(r"\b" + re.escape(name) + r"\s*(?:=\s*\(\)\s*=>|\([^)]*\)(?:\s*:\s*\w+)?)\s*\{", src)
    if not m:
        return None
    i, depth = m.end(), 1
    while i < len(src) and depth:
        depth += {"{": 1, "}": -1}.get(src[i], 0)
        i += 1
    return src[m.end():i - 1]


out = {"bound": True, "arms": {}}
ld = body("loadAndRunSourceCode")
if ld is None:
    out["bound"] = False
    ld = ""
loop = re.search(r"for\s*\(const line of lines\)\s*\{(.*)\}\s*this\.impl\.start_evaluating\(\"RUN\"\)", ld, re.S)
lb = loop.group(1) if loop else ""
out["bound"] &= bool(loop) and "this.impl.start_evaluating(line)" in lb and "isFullyInteractive = false" in ld
after = lb.split("this.impl.start_evaluating(line)", 1)[1] if "this.impl.start_evaluating(line)" in lb else ""
out["loader_checks_error"] = bool(re.search(r"get_state\(\)\s*===\s*JsInterpreterState\.Errored[^}]*\b(return|break)\b", after, re.S))
out["loader_skips_blank"] = bool(re.search(r"if\s*\(\s*!line\.trim\(\)\s*\)\s*\{\s*continue", lb))
out["loader_skips_unnumbered"] = bool(re.search(r"if\s*\(\s*!/\^\[0-9\]/\.test\(line\)\s*\)\s*\{.*?continue", lb, re.S))

hs = body("handleCurrentState") or ""
arms = {
    "shows_output_first": hs.strip().startswith("this.showOutput()"),
    "running_continues_and_rearms": bool(re.search(r"case JsInterpreterState\.Running:\s*this\.impl\.continue_evaluating\(\);\s*window\.setTimeout\(this\.handleCurrentState", hs)),
    "errored_takes_error_and_handles_again": bool(re.search(r"case JsInterpreterState\.Errored:.*?take_latest_error\(\).*?this\.handleCurrentState\(\);", hs, re.S)),
    "idle_disables_input_when_not_interactive": bool(re.search(r"case JsInterpreterState\.Idle:\s*if\s*\(!this\.isFullyInteractive\)\s*\{\s*ui\.clearPromptAndDisableInput\(\);\s*return;", hs)),
}
sb = body("submitUserInput") or ""
arms["submit_idle_starts_awaiting_provides"] = bool(re.search(r"state === JsInterpreterState\.Idle\)\s*\{\s*this\.impl\.start_evaluating\(input\)", sb)) and \
    bool(re.search(r"state === JsInterpreterState\.AwaitingInput\)\s*\{\s*this\.impl\.provide_input\(input\)", sb)) and "this.handleCurrentState()" in sb
bb = body("breakAtCurrentLocation") or ""
arms["break_only_when_awaiting_or_running"] = bool(re.search(r"state === JsInterpreterState\.AwaitingInput\s*\|\|\s*state === JsInterpreterState\.Running", bb)) and \
    "this.isFullyInteractive = true" in bb and "this.impl.break_at_current_location()" in bb and "this.handleCurrentState()" in bb
cp = body("canProcessUserInput") or ""
arms["can_submit_when_idle_or_awaiting"] = "JsInterpreterState.Idle" in cp and "JsInterpreterState.AwaitingInput" in cp
out["arms"] = arms
out["bound"] = bool(out["bound"] and all(arms.values()))
print(json.dumps(out))
