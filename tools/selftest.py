#!/usr/bin/env python3
"""Demonstrate that the specification is bound to the code (not a registered check):
  1. a recorded lexer trace with one range corrupted is rejected by Trace_Lex;
  2. a recorded session trace with one event REMOVED (a missing hook event) is rejected by Trace_Session;
  3. a recorded session trace with one output text corrupted is rejected by Trace_Session;
  4. the untouched traces are accepted.
Exit 0 if all four hold."""
import json, os, sys
sys.path.insert(0, os.path.dirname(os.path.dirname(os.path.abspath(__file__))))
from checklib import common as c

wd = c.workdir("selftest")
c.build_harness()
ok = True


def verdicts(module, trace, tag):
    out = os.path.join(wd, tag + ".out")
    c.run_trace_tlc(module, trace, out, os.path.join(wd, "md_" + tag))
    vs, consumed, _ = c.parse_verdicts(out)
    assert consumed, f"{module} did not consume {trace}"
    return vs


lex = os.path.join(wd, "lex.ndjson")
c.run_vh(["lex-record", "7", "200", lex])
lines = open(lex).read().splitlines()
assert verdicts("Trace_Lex", lex, "lex_ok") == [], "clean lexer trace rejected"
k = next(i for i, l in enumerate(lines) if json.loads(l)["ranges"])
ev = json.loads(lines[k]); ev["ranges"][0][1] += 1; lines[k] = json.dumps(ev)
bad = os.path.join(wd, "lex_bad.ndjson"); open(bad, "w").write("\n".join(lines) + "\n")
v = verdicts("Trace_Lex", bad, "lex_bad")
print("1. corrupted token range ->", v[:1]); ok &= any(x["i"] == k + 1 for x in v)

ses = os.path.join(wd, "ses.ndjson")
c.run_vh(["sess-record", "progs", "7", "6", ses, os.path.join(wd, "ses.json")])
lines = open(ses).read().splitlines()
assert [x for x in verdicts("Trace_Session", ses, "ses_ok") if x["kind"] != "unknown"] == [], "clean session trace rejected"
k = next(i for i, l in enumerate(lines) if json.loads(l)["c"]["k"] == "continue" and json.loads(l)["out"])
removed = lines[:k] + lines[k + 1:]
bad = os.path.join(wd, "ses_removed.ndjson"); open(bad, "w").write("\n".join(removed) + "\n")
v = verdicts("Trace_Session", bad, "ses_removed")
print("2. removed one continue event ->", v[:1]); ok &= any(x["kind"] == "diff" for x in v)
ev = json.loads(lines[k])
for o in ev["out"]:
    if o["t"] == "print":
        o["text"] = o["text"] + [33]
lines2 = list(lines); lines2[k] = json.dumps(ev)
bad = os.path.join(wd, "ses_text.ndjson"); open(bad, "w").write("\n".join(lines2) + "\n")
v = verdicts("Trace_Session", bad, "ses_text")
print("3. corrupted printed text ->", v[:1]); ok &= any(x["kind"] == "diff" and "out.text" in x["fields"] for x in v)
print("selftest:", "ok" if ok else "FAILED")
sys.exit(0 if ok else 1)
