#!/usr/bin/env python3
"""Regenerate /verif/MANIFEST.json from the table below (run after adding a check)."""
import json, os
V = "/verif"
props = [json.loads(l) for l in open(f"{V}/properties.jsonl")]

TECH = "explicit TLA+ model checked by TLC; TLC-generated behaviours replayed into the real code; traces recorded from the real code validated by TLC against the same model"
NOTE = ("Trusted: TLC (and Apalache where named), the TLA+ model as oracle, the harness (vh) and the read-only verif-hooks. "
        "Bounded: alphabets, budgets and driver sizes are printed in the evidence file.")

CLAIMED = {
 "C01": "Abasic.tla gives every host call a total Step function; TLC explores every legal call sequence over a 17-line alphabet (program entry, deletion, failing edit, RUN/CONT/NEW/LIST/TRACE, INPUT/STOP/failing/looping programs, replies, breaks, interpreter replacement) to the tier's depth and checks ErrIdle, RefIntegrity (no stored location dangles), ErrorRenderable and RunningCanBreak in every state; every transition is replayed on the real interpreter (a panic is data, caught and reported); byte-level fuzz sessions (token soup, raw UTF-8, boundary numerals, nesting to depth 60) are monitored for panics / error-without-idle / caret rendering and validated by TLC.",
 "C02": "MC_Expr: TLC enumerates expression trees (all operator pairs in both shapes, unary placements, ABS/INT; thorough adds all operator triples in three shapes) and checks that the token-cursor evaluator equals a parser-free Fold of the tree for the minimal and the redundant rendering; every tree is replayed as PRINT <expr>; random trees of up to 12 operators printed by the real interpreter are judged by TLC (Trace_Expr).",
 "C03": "The Abasic model is the reference interpreter. Every run of the kernel catalogue is explored by TLC and replayed transition by transition; generated structured programs (nested loops, subroutines, conditional jumps, ELSE forms, READ/DATA, DEF FN with dynamic scoping, runtime failures) are run on the real interpreter and TLC folds Step over every recorded call, comparing printed text, error kind and error line (and the whole state snapshot).",
 "C04": "MC_C04: all edit sequences over line numbers {0, 00, 7, 007, 10, 2^64-2, 2^64-1, 2^64} x bodies {PRINT, empty, untokenizable, REM} with LIST and RUN; invariant LastWriterWins compares the store with the map the property statement describes, recomputed from the call history alone; every transition replayed (LIST text, RUN order, key lists of both internal indexes).",
 "C05": "Analyzer.tla models the file pass, the kind-checking walk, symbol warnings and the source map; MC_Analyzer enumerates every file of <=3 (quick) / <=4 (thorough) lines over an 18-shape line alphabet (numbered, unnumbered, blank, duplicate, emptied, untokenizable in three ways, CR endings, non-ASCII in strings / REM / illegal position, failing statements, undefined and unused symbols) and TLC checks that every diagnostic maps to an in-bounds, character-aligned range on the line it names and that there is one ordered token list per line; every file is analysed by the real analyzer under the same monitors (a panic is data); random files are judged by TLC; deep-nesting files run in child processes.",
 "C06": "Both the checker (Analyzer.tla) and the interpreter (Abasic.tla) are in the model, so TLC checks the agreement as a theorem about the model: converse and forward on every writable one-line program of <=4 (quick) / <=5 (thorough) tokens over a 17-token alphabet, forward over every execution of the kernels the checker accepts; each row is analysed AND run by the real components, which must satisfy both implications themselves and match their models; generated multi-line programs the checker accepts are run under several reply scripts and seeds.",
 "C07": "One-step lemma BreakContTransparent (Break;CONT = Continue on the whole observable state) checked by TLC at every reachable state of the kernel schedules and of MC_C01; kernel schedules with breaks, inspections and CONT replayed on the real interpreter; differential driver: generated programs run uninterrupted vs with random breaks + side-effect-free (also failing) inspections + CONT, transcripts and final state compared; both runs validated by TLC.",
 "C08": "Kernels with INPUT after other statements, inside THEN / ELSE, in FOR, in a subroutine and with array targets x replies {5, abc, 1,2, empty} explored by TLC and replayed; differential driver: INPUT answered with 5 vs the same program with the assignment in its place; generated programs with INPUT validated by TLC.",
 "C09": "In the model Continue is one statement; kernel runs (tracing on) are replayed call by call so output shifts between calls are caught; generated programs with tracing validated per call by TLC; the hook's token-read counter bounds the work of every call by the longest line (12 reads per token; measured maximum 5).",
 "C10": "One-step lemma RunIsFresh (RUN from any reachable state = RUN from a fresh interpreter with the same program, seed and flags) checked by TLC on MC_C01; differential driver: RUN after a random history (immediate statements, runs, breaks, pending replies, edits) vs RUN in a fresh interpreter given the listing, the seed read from the snapshot and the flags.",
 "C11": "Lemma EditInvalidates checked by TLC at every reachable idle state for every edit line of the alphabet; kernels x suspension points x edits {add, replace, delete, delete a frame's line, failed edit} x probes {CONT, RETURN, NEXT, READ, FN call, GOTO} explored and replayed; random programs suspended at random points, edited and probed, validated by TLC.",
 "C12": "MC_Lex: every line of <=3 (quick) / <=4 (thorough) lexemes over a 29-lexeme alphabet; TLC checks on the Lexer model that every blank/tab insertion, blank deletion and case flip outside string literals, REM text and DATA items leaves the tokens unchanged; every row and every allowed perturbation replayed through the real tokenizer; random longer lines recorded from the real tokenizer judged by TLC.",
 "C13": "Same enumeration: the model's tokens, byte ranges and error positions compared with the real tokenizer's on every row; TLC checks ranges in-line, on character boundaries, ordered, disjoint, non-blank at both ends, re-tokenizing to the one token, and that the prefix before an error tokenizes to the tokens already produced.",
 "C14": "Same enumeration: TLC checks that the LIST line of every stored line re-tokenizes to the same tokens and lists identically; the real interpreter stores each line, LISTs it, reloads the listing into a fresh interpreter and must show identical tokens and listing, equal to the model's.",
 "C15": "Cli.tla models StdioInterpreter under pipes (options, file mode vs interactive mode, the line-buffering printer's stdout/stderr interleaving, exit codes) and the loader equivalence; MC_Cli checks both halves of C15 on 21 programs x 8 option sets x 3 reply scripts; the real `abasic` binary is run both ways and compared with itself and with the predicted streams; the real analyzer loader is compared with line-by-line entry (LIST, tokens, RUN); generated programs through the real binary are judged by TLC.",
 "C16": "Invariant Caps (<=32 frames, <=32 loops with distinct variables, cell count = product <= 10000, name-suffix typing of variables, cells and parameters) checked by TLC on MC_C01 and on cap-driving kernels (GOSUB and function recursion to 33, 34 FOR variables, FOR re-entered by GOTO 40 times, DIM at 10000/10001 cells, implicit arrays of 1-5 dimensions, every write path with the wrong kind); the same invariants are monitors on every snapshot of every recorded trace.",
 "C17": "One-step lemma FlagsDoNotInterfere checked by TLC at every reachable state of the kernel schedules with both flags on; trace and warning records (kind, line) predicted by the model and compared on replay; differential driver: each generated program under the four flag configurations, outputs minus trace/warning records and final state compared.",
 "C18": "Rng.tla on limb naturals; MC_Rng explores all argument-sign sequences from 17 boundary seeds with invariants InRange and Pure (against an independently coded LCG); Apalache proves the range invariant inductive over unbounded integers; every transition replayed through the hook, PRINT RND on the core and on the Web adapter; RND calls from boundary and random 64-bit seeds judged by TLC.",
 "C19": "Web.tla models the adapter (error latch asserted empty on entry, interpreter swap on NEW, get_state's panic arm) and the page script's four handlers with the timer tick as an independently enabled action; the protocol is parameterised by facts extracted from main.ts; MC_Web explores every event sequence (load, submit, break, tick) to the tier's length with invariants NoTrap / NewIsFresh; every transition is replayed on the real JsInterpreter (built natively) through a transliteration of the handlers, beside a plain core interpreter; random page sessions are judged by TLC.",
 "C20": "Lsp.tla models the server loop (document map, diagnostics as the image of the analyzer's messages with UTF-16 columns, delta-encoded semantic tokens); MC_Lsp explores every open / change / token-request sequence to the tier's length over 8 texts including non-ASCII and astral characters before tokens, with invariant C20Holds; every transition is replayed against the real abasic-lsp process over stdio, each reply also checked for liveness, bounds computed from the bytes, ordering, legend and bag equality with the in-process analyzer; random documents through a long-lived server are judged by TLC.",
}
ENGINE = "tlc+vh"
checks = []
for pid in sorted(CLAIMED):
    checks.append({
        "property_id": pid,
        "quick_cmd": f"./check {pid} --tier quick",
        "thorough_cmd": f"./check {pid} --tier thorough",
        "evidence_file": f"/verif/evidence/{pid}.json",
        "replay_cmd_template": "./check replay {path}",
        "engine": ENGINE,
        "level_claimed": {"category": "model_checking", "text": CLAIMED[pid], "design_ref": f"DESIGN.md §5 {pid}"},
        "level_note": NOTE,
        "technique": TECH,
    })
NA_REASON = {
}
na = [{"property_id": p["id"], "reason": NA_REASON.get(p["id"], "check not built yet in this round (planned: DESIGN.md §5); not claimed until its binding runs green")}
      for p in props if p["id"] not in CLAIMED]
import subprocess
hooks = subprocess.run(["git", "-C", "/repo", "log", "--format=%h %s"], capture_output=True, text=True).stdout.splitlines()
hook_commits = [l.split()[0] for l in hooks if "verif-hooks" in l]
m = {"version": 1,
     "setup_cmd": "cd /verif/harness && (test -f Cargo.lock || cp /repo/Cargo.lock .) && CARGO_NET_OFFLINE=true cargo build --offline --quiet && cd /repo && CARGO_NET_OFFLINE=true cargo build --offline --quiet -p abasic-cli -p abasic-lsp --target-dir /verif/harness/target/repo",
     "hooks": {"guard": "verif-hooks",
               "enable": "cargo feature `verif-hooks` of abasic-core (the harness depends on abasic-core with features=[\"verif-hooks\"])",
               "baseline_off_cmd": "cd /repo && RUST_BACKTRACE=0 cargo test --workspace --no-fail-fast --offline",
               "source_commits": hook_commits, "add_only": True},
     "engines": [{"name": ENGINE, "path": "/verif/check", "serves_properties": sorted(CLAIMED),
                  "kind_free_text": "TLC 1.8 model checking of /verif/spec/*.tla (Apalache for RngInd); Rust harness /verif/harness (vh) replays TLC-generated behaviours into the real code and records traces that TLC validates"}],
     "checks": checks,
     "notes": "See DESIGN.md. Repairs of genuine defects are `fix:` commits in /repo, listed in known_findings.jsonl as fixed entries.",
     "not_applicable": na}
json.dump(m, open(f"{V}/MANIFEST.json", "w"), indent=1)
print("claimed", len(checks), "not yet", len(na))
