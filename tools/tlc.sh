#!/bin/sh
# usage: tlc.sh <workers> <metadir> <cfg> <module.tla> [extra TLC args...]
# Runs TLC with the spec directory on the library path; never writes into /verif/spec; Java's temporary files go to the metadir, not to /tmp.
W="$1"; MD="$2"; CFG="$3"; MOD="$4"; shift 4
mkdir -p "$MD"
exec java -XX:+UseParallelGC -Djava.io.tmpdir="$MD" ${TLC_JAVA_OPTS:--Xss512m} \
  -cp /opt/veriftools/tla/tla2tools.jar:/opt/veriftools/tla/CommunityModules-deps.jar \
  -DTLA-Library="$(dirname "$MOD")" tlc2.TLC -workers "$W" -metadir "$MD" -cleanup -noGenerateSpecTE -nowarning \
  -config "$CFG" "$MOD" "$@"
