------------------------------- MODULE MC_C01 -------------------------------
(***************************************************************************)
(* C01 (and the one-step lemmas of C07, C10, C11, C17): every legal call   *)
(* sequence, to a depth bound, over an alphabet that mixes program entry,  *)
(* deletion, a failing edit, RUN / CONT / NEW / LIST / TRACE, programs     *)
(* that await input, stop, fail and loop, immediate statements that fail,  *)
(* replies, breaks and replacement of the interpreter.                     *)
(***************************************************************************)
EXTENDS MC_Session

C01Lines == { B("10 INPUT X:PRINT X"), B("20 STOP:GOTO 10"), B("30 GOSUB 30"), B("10"), B("20 %"),
              B("5 FOR I=1 TO 2:READ A:NEXT I:DATA 1,x"), B("5"), B("READ Q"), B("FOR I=1 TO 2"),
              B("RUN"), B("CONT"), B("NEW"), B("LIST"), B("TRACE"),
              B("PRINT 1/0"), B("PRINT X.5+"), B("X=X+1:PRINT X"), B("GOTO 20"), B("NEXT I"), B("RETURN"), B("\"") }
C01Replies == { B("5"), B("abc") }
=============================================================================
