------------------------------ MODULE Analyzer ------------------------------
(***************************************************************************)
(* The static analyzer (SourceFileAnalyzer): a file is split into lines;   *)
(* each line is numbered or not, tokenized or not, stored or not; the      *)
(* stored program is then walked line by line, statement by statement, by  *)
(* a checker over value KINDS (a fork of the evaluator, as in the code);   *)
(* finally symbols that are only written or only read are reported.  Every *)
(* diagnostic can be mapped to a source position through the file map.     *)
(*                                                                         *)
(* The walk reuses the interpreter record's token cursor (prog, keys, loc, *)
(* fns); `acc` collects symbol accesses.                                   *)
(***************************************************************************)
EXTENDS Abasic

TNum == VNum(NZero)          \* expression kinds are carried as dummy values: IsStr(v) is the kind
TStr == VStr(<<>>)
KindOfName(name) == IF EndsWithDollar(name) THEN TStr ELSE TNum

AStart == Fresh @@ [acc |-> <<>>]
LogAccess(A, sym, l, w) == [A EXCEPT !.acc = Append(@, [sym |-> sym, line |-> l.line, tok |-> l.tok, w |-> w])]

(***************************************************************************)
(* Expression kinds.  Comparisons, AND, OR and NOT yield a number whatever *)
(* their operands are; unary plus accepts either kind; - needs a number.   *)
(***************************************************************************)
RECURSIVE ATier(_, _), ATierLoop(_, _, _), AUnary(_), AParen(_), ATerm(_), AIndex(_), AIndexLoop(_, _), ANumArg(_), ACallArgs(_, _, _)

AExpr(A) ==
    IF A.nest = MAX_NEST THEN RErr(A, "out_of_memory_stack_overflow")
    ELSE LET r == ATier([A EXCEPT !.nest = @ + 1], 1) IN [r EXCEPT !.I.nest = A.nest]

ATier(A, n) ==
    IF n = 7 THEN AUnary(A)
    ELSE LET a == ATier(A, n + 1) IN IF Fail(a) THEN a ELSE ATierLoop(a.I, a.v, n)
ATierLoop(A, v, n) ==
    IF Peek(A).k \notin TierOps(n) THEN ROk(A, v)
    ELSE LET b == ATier(Adv(A), n + 1)
         IN  IF Fail(b) THEN b
             ELSE IF n >= 4 /\ (IsStr(v) \/ IsStr(b.v)) THEN RErr(b.I, "type_mismatch")
             ELSE IF n = 3 /\ IsStr(v) # IsStr(b.v) THEN RErr(b.I, "type_mismatch")
             ELSE ATierLoop(b.I, TNum, n)

AUnary(A) ==
    IF Peek(A).k \in {"plus", "minus", "not"}
    THEN LET op == Peek(A).k
             a == AParen(Adv(A))
         IN  IF Fail(a) THEN a
             ELSE IF op = "minus" /\ IsStr(a.v) THEN RErr(a.I, "type_mismatch")
             ELSE IF op = "not" THEN ROk(a.I, TNum)
             ELSE a
    ELSE AParen(A)

AParen(A) ==
    IF Peek(A).k = "leftparen"
    THEN LET a == AExpr(Adv(A))
         IN  IF Fail(a) THEN a ELSE LET x == Expect(a.I, "rightparen") IN IF Fail(x) THEN x ELSE ROk(x.I, a.v)
    ELSE ATerm(A)

\* subscripts: r.v.n carries the arity
AIndex(A) == LET x == Expect(A, "leftparen") IN IF Fail(x) THEN x ELSE AIndexLoop(x.I, 0)
AIndexLoop(A, n) ==
    LET a == AExpr(A)
    IN  IF Fail(a) THEN a
        ELSE IF IsStr(a.v) THEN RErr(a.I, "type_mismatch")
        ELSE IF Peek(a.I).k = "comma" THEN AIndexLoop(Adv(a.I), n + 1)
        ELSE LET x == Expect(a.I, "rightparen") IN IF Fail(x) THEN x ELSE ROk(x.I, [TNum EXCEPT !.n = n + 1])

ANumArg(A) ==
    LET x == Expect(A, "leftparen")
    IN  IF Fail(x) THEN x
        ELSE LET a == AExpr(x.I)
             IN  IF Fail(a) THEN a
                 ELSE IF IsStr(a.v) THEN RErr(a.I, "type_mismatch")
                 ELSE LET y == Expect(a.I, "rightparen") IN IF Fail(y) THEN y ELSE ROk(y.I, TNum)

ACallArgs(A, args, i) ==
    IF i > Len(args) THEN ROk(A, TNum)
    ELSE LET a == AExpr(A)
         IN  IF Fail(a) THEN a
             ELSE IF IsStr(a.v) # EndsWithDollar(args[i]) THEN RErr(a.I, "type_mismatch")
             ELSE IF i < Len(args)
                  THEN LET x == Expect(a.I, "comma") IN IF Fail(x) THEN x ELSE ACallArgs(x.I, args, i + 1)
                  ELSE ACallArgs(a.I, args, i + 1)

ATerm(A) ==
    IF ~HasTok(A) THEN REnd(A)
    ELSE LET t == Peek(A)
             A1 == Adv(A)
             here == PrevLoc(A1)
         IN  CASE t.k = "stringliteral" -> ROk(A1, TStr)
               [] t.k = "numericliteral" -> ROk(A1, TNum)
               [] t.k = "symbol" ->
                    IF Peek(A1).k = "leftparen"
                    THEN IF t.s \in Builtins THEN ANumArg(A1)
                         ELSE IF t.s \in DOMAIN A1.fns
                         THEN LET A2 == LogAccess(A1, t.s, here, FALSE)
                                  x == Expect(A2, "leftparen")
                              IN  IF Fail(x) THEN x
                                  ELSE LET b == ACallArgs(x.I, A2.fns[t.s].args, 1)
                                       IN  IF Fail(b) THEN b
                                           ELSE LET y == Expect(b.I, "rightparen")
                                                IN  IF Fail(y) THEN y ELSE ROk(y.I, KindOfName(t.s))
                         ELSE LET ix == AIndex(A1)
                              IN  IF Fail(ix) THEN ix ELSE ROk(LogAccess(ix.I, t.s, here, FALSE), KindOfName(t.s))
                    ELSE ROk(LogAccess(A1, t.s, here, FALSE), KindOfName(t.s))
               [] OTHER -> RErr(A1, "syntax_unexpected_token")

(***************************************************************************)
(* Statements.                                                             *)
(***************************************************************************)
\* [r, name, at]: symbol with optional subscripts; `at` is the symbol's location
ALValue(A) ==
    IF Peek(A).k # "symbol" THEN [r |-> RErr(IF HasTok(A) THEN Adv(A) ELSE A, "syntax_unexpected_token"), name |-> <<>>, at |-> ImmLoc]
    ELSE LET name == Peek(A).s
             A1 == Adv(A)
             at == PrevLoc(A1)
         IN  IF Peek(A1).k = "leftparen" THEN [r |-> AIndex(A1), name |-> name, at |-> at]
             ELSE [r |-> ROk(A1, TNum), name |-> name, at |-> at]

RECURSIVE AStatement(_), ABody(_, _), AStmtOrGoto(_), APrintLoop(_), AReadLoop(_), ADefArgs(_, _)

AGoto(A) ==
    IF Peek(A).k # "numericliteral" THEN RErr(IF HasTok(A) THEN Adv(A) ELSE A, "undefined_statement")
    ELSE LET v == Peek(A).v
             A1 == Adv(A)
         IN  IF ~IsFin(v) THEN RErr(A1, "unknown")
             ELSE IF GotoKey(v) \in DOMAIN A1.prog THEN ROk(A1, TNum) ELSE RErr(A1, "undefined_statement")

AStmtOrGoto(A) == IF Peek(A).k = "numericliteral" THEN AGoto(A) ELSE AStatement(A)

APrintLoop(A) ==
    IF ~HasTok(A) \/ Peek(A).k \in {"colon", "else"} THEN ROk(A, TNum)
    ELSE IF Peek(A).k \in {"semicolon", "comma"} THEN APrintLoop(Adv(A))
    ELSE LET a == AExpr(A) IN IF Fail(a) THEN a ELSE APrintLoop(a.I)

AReadLoop(A) ==
    LET lv == ALValue(A)
    IN  IF Fail(lv.r) THEN lv.r
        ELSE LET A1 == LogAccess(lv.r.I, lv.name, lv.at, TRUE)
             IN  IF Peek(A1).k = "comma" THEN AReadLoop(Adv(A1)) ELSE ROk(A1, TNum)

ADefArgs(A, acc) ==
    IF Peek(A).k # "symbol" THEN [r |-> RErr(IF HasTok(A) THEN Adv(A) ELSE A, "syntax_unexpected_token"), args |-> acc]
    ELSE LET acc2 == Append(acc, Peek(A).s)
             A1 == Adv(A)
         IN  IF Peek(A1).k = "comma" THEN ADefArgs(Adv(A1), acc2)
             ELSE IF Peek(A1).k = "rightparen" THEN [r |-> ROk(Adv(A1), TNum), args |-> acc2]
             ELSE [r |-> RErr(IF HasTok(A1) THEN Adv(A1) ELSE A1, "syntax_unexpected_token"), args |-> acc2]

AAssign(A, name, at) == \* after the symbol
    LET ix == IF Peek(A).k = "leftparen" THEN AIndex(A) ELSE ROk(A, TNum)
    IN  IF Fail(ix) THEN ix
        ELSE LET x == Expect(ix.I, "equals")
             IN  IF Fail(x) THEN x
                 ELSE LET v == AExpr(x.I)
                      IN  IF Fail(v) THEN v
                          ELSE LET A1 == LogAccess(v.I, name, at, TRUE)
                               IN  IF IsStr(v.v) # EndsWithDollar(name) THEN RErr(A1, "type_mismatch") ELSE ROk(A1, TNum)

AFor(A) ==
    IF Peek(A).k # "symbol" THEN RErr(IF HasTok(A) THEN Adv(A) ELSE A, "syntax_unexpected_token")
    ELSE LET sym == Peek(A).s
             A1 == LogAccess(Adv(A), sym, PrevLoc(Adv(A)), TRUE)
         IN  IF EndsWithDollar(sym) THEN RErr(A1, "type_mismatch")
             ELSE LET x1 == Expect(A1, "equals") IN IF Fail(x1) THEN x1
             ELSE LET from == AExpr(x1.I) IN IF Fail(from) THEN from
             ELSE IF IsStr(from.v) THEN RErr(from.I, "type_mismatch")
             ELSE LET x2 == Expect(from.I, "to") IN IF Fail(x2) THEN x2
             ELSE LET to == AExpr(x2.I) IN IF Fail(to) THEN to
             ELSE IF IsStr(to.v) THEN RErr(to.I, "type_mismatch")
             ELSE IF Peek(to.I).k # "step" THEN to
             ELSE LET st == AExpr(Adv(to.I)) IN IF Fail(st) THEN st
             ELSE IF IsStr(st.v) THEN RErr(st.I, "type_mismatch") ELSE st

AStatement(A) ==
    IF A.snest = MAX_NEST THEN RErr(A, "out_of_memory_stack_overflow")
    ELSE LET A0 == [A EXCEPT !.snest = @ + 1]
             r == IF ~HasTok(A0) THEN ROk(A0, TNum) ELSE ABody(Adv(A0), Peek(A0))
         IN  [r EXCEPT !.I.snest = A.snest]

ABody(A, t) ==
    CASE t.k \in {"stop", "return", "end", "remark", "colon", "data"} -> ROk(A, TNum)
      [] t.k \in {"dim", "input"} ->
            LET lv == ALValue(A) IN IF Fail(lv.r) THEN lv.r ELSE ROk(LogAccess(lv.r.I, lv.name, lv.at, TRUE), TNum)
      [] t.k \in {"print", "questionmark"} -> APrintLoop(A)
      [] t.k = "if" ->
            LET c == AExpr(A)
            IN  IF Fail(c) THEN c
                ELSE LET x == Expect(c.I, "then")
                     IN  IF Fail(x) THEN x
                         ELSE LET s == AStmtOrGoto(x.I)
                              IN  IF Fail(s) THEN s
                                  ELSE IF Peek(s.I).k = "else" THEN AStmtOrGoto(Adv(s.I)) ELSE s
      [] t.k \in {"goto", "gosub"} -> AGoto(A)
      [] t.k = "for" -> AFor(A)
      [] t.k = "next" ->
            IF Peek(A).k # "symbol" THEN RErr(IF HasTok(A) THEN Adv(A) ELSE A, "syntax_unexpected_token")
            ELSE LET A1 == LogAccess(Adv(A), Peek(A).s, PrevLoc(Adv(A)), FALSE)
                 IN  IF EndsWithDollar(Peek(A).s) THEN RErr(A1, "type_mismatch") ELSE ROk(A1, TNum)
      [] t.k = "restore" -> ROk(A, TNum)
      [] t.k = "def" ->
            IF Peek(A).k # "symbol" THEN RErr(IF HasTok(A) THEN Adv(A) ELSE A, "syntax_unexpected_token")
            ELSE LET name == Peek(A).s
                     A1 == LogAccess(Adv(A), name, PrevLoc(Adv(A)), TRUE)
                     x == Expect(A1, "leftparen")
                 IN  IF Fail(x) THEN x
                     ELSE LET da == ADefArgs(x.I, <<>>)
                          IN  IF Fail(da.r) THEN da.r
                              ELSE LET y == Expect(da.r.I, "equals")
                                   IN  IF Fail(y) THEN y
                                       ELSE AExpr([y.I EXCEPT !.fns = Put(@, name, [args |-> da.args, line |-> y.I.loc.line, tok |-> y.I.loc.tok])])
      [] t.k = "read" -> AReadLoop(A)
      [] t.k = "let" ->
            IF Peek(A).k # "symbol" THEN RErr(IF HasTok(A) THEN Adv(A) ELSE A, "syntax_unexpected_token")
            ELSE AAssign(Adv(A), Peek(A).s, PrevLoc(Adv(A)))
      [] t.k = "symbol" -> AAssign(A, t.s, PrevLoc(A))
      [] OTHER -> RErr(A, "syntax_unexpected_token")

(***************************************************************************)
(* The file pass.                                                          *)
(***************************************************************************)
RECURSIVE SplitLines(_, _, _)
SplitLines(s, i, cur) == \* split on LF
    IF i > Len(s) THEN <<cur>>
    ELSE IF s[i] = LF THEN <<cur>> \o SplitLines(s, i + 1, <<>>)
    ELSE SplitLines(s, i + 1, Append(cur, s[i]))
FileLines(text) == SplitLines(text, 1, <<>>)

\* Per file line: [numbered, key, lne, lexok, toks, ranges, len, stored, lx]
\* Messages: [k, fline, err, line, tok, hasloc]
Msg(k, fline) == [k |-> k, fline |-> fline, err |-> "", line |-> IMM, tok |-> 0, hasloc |-> FALSE]

RECURSIVE LoadLines(_, _, _, _, _)
LoadLines(lines, i, A, infos, msgs) == \* i: 1-based index; file line numbers are 0-based
    IF i > Len(lines) THEN [A |-> A, infos |-> infos, msgs |-> msgs]
    ELSE LET line == lines[i]
             empty == [numbered |-> FALSE, key |-> IMM, lne |-> 0, lexok |-> FALSE, toks |-> <<>>, ranges |-> <<>>,
                       len |-> Len(line), stored |-> FALSE, err |-> "", ea |-> 0, eb |-> 0]
             pl == ParseLineNumber(line)
         IN  IF line = <<>> THEN LoadLines(lines, i + 1, A, Append(infos, empty), msgs)
             ELSE IF ~pl.some THEN LoadLines(lines, i + 1, A, Append(infos, empty), Append(msgs, Msg("warn_nonumber", i - 1)))
             ELSE LET lx == Tokenize(line, pl.end)
                      m1 == IF pl.key \in DOMAIN A.prog THEN Append(msgs, Msg("warn_redefined", i - 1)) ELSE msgs
                      base == [empty EXCEPT !.numbered = TRUE, !.key = pl.key, !.lne = pl.end]
                  IN  IF lx.err # ""
                      THEN LoadLines(lines, i + 1, A, Append(infos, [base EXCEPT !.err = lx.err, !.ea = lx.ea, !.eb = lx.eb]),
                                     Append(m1, [Msg("error", i - 1) EXCEPT !.err = "syntax_tokenization_" \o lx.err]))
                      ELSE IF lx.toks = <<>>
                      THEN LoadLines(lines, i + 1, A, Append(infos, [base EXCEPT !.lexok = TRUE]), Append(m1, Msg("warn_empty", i - 1)))
                      ELSE LoadLines(lines, i + 1, SetLine(A, pl.key, lx.toks),
                                     Append(infos, [base EXCEPT !.lexok = TRUE, !.toks = lx.toks, !.ranges = lx.ranges, !.stored = TRUE]), m1)

\* the file line whose tokens are stored under a BASIC line: the LAST stored definition
RECURSIVE FileLineOf(_, _, _)
FileLineOf(infos, key, i) ==
    IF i = 0 THEN 0 - 1 ELSE IF infos[i].stored /\ infos[i].key = key THEN i - 1 ELSE FileLineOf(infos, key, i - 1)

\* walk the stored program: one error at most per line
RECURSIVE WalkLine(_), WalkProgram(_, _, _)
WalkLine(A) == \* statements of the current line until it is exhausted or one fails
    IF ~HasTok(A) THEN ROk(A, TNum)
    ELSE LET r == AStatement(A) IN IF Fail(r) THEN r ELSE WalkLine(r.I)

WalkProgram(A, infos, msgs) ==
    LET r == WalkLine(A)
        xl == IF r.xl.some THEN r.xl ELSE SomeLoc(PrevLoc(r.I))
        m2 == IF Fail(r)
              THEN Append(msgs, [k |-> "error", fline |-> FileLineOf(infos, xl.line, Len(infos)), err |-> r.e,
                                 line |-> xl.line, tok |-> xl.tok, hasloc |-> TRUE])
              ELSE msgs
        A2 == r.I
    IN  IF HasAfter(A2, A2.loc.line)
        THEN WalkProgram([A2 EXCEPT !.loc = Loc(AfterKey(A2, A2.loc.line), 0)], infos, m2)
        ELSE [A |-> A2, msgs |-> m2]

\* symbols that are only written (unused) or only read (undefined); one message per access
AccessMsgs(acc, infos) ==
    LET syms == {acc[i].sym : i \in 1..Len(acc)}
        reads(s) == {i \in 1..Len(acc) : acc[i].sym = s /\ ~acc[i].w}
        writes(s) == {i \in 1..Len(acc) : acc[i].sym = s /\ acc[i].w}
        bad == {i \in 1..Len(acc) : \/ (acc[i].w /\ reads(acc[i].sym) = {})
                                     \/ (~acc[i].w /\ writes(acc[i].sym) = {})}
    IN  {[k |-> IF acc[i].w THEN "warn_unused" ELSE "warn_undefined", fline |-> FileLineOf(infos, acc[i].line, Len(infos)),
          err |-> "", line |-> acc[i].line, tok |-> acc[i].tok, hasloc |-> TRUE] : i \in bad}

\* Analyze(text) == [infos, msgs (in order, without the symbol warnings), symmsgs (a set), errs]
Analyze(text) ==
    LET lines == FileLines(text)
        ld == LoadLines(lines, 1, AStart, <<>>, <<>>)
        A0 == ld.A
        w == IF HasFirst(A0) THEN WalkProgram([A0 EXCEPT !.loc = Loc(FirstKey(A0), 0)], ld.infos, ld.msgs)
             ELSE [A |-> A0, msgs |-> ld.msgs]
    IN  [lines |-> lines, infos |-> ld.infos, msgs |-> w.msgs, symmsgs |-> AccessMsgs(w.A.acc, ld.infos), A |-> w.A]

\* map_to_source of a message: [some, fline, a, b]
TokRangeOf(info, tok) ==
    IF ~info.stored THEN [some |-> FALSE, a |-> 0, b |-> 0]
    ELSE LET n == Len(info.ranges)
             t == IF tok = n /\ n > 0 THEN n - 1 ELSE tok
         IN  IF t < n THEN [some |-> TRUE, a |-> info.ranges[t + 1][1], b |-> info.ranges[t + 1][2]] ELSE [some |-> FALSE, a |-> 0, b |-> 0]

MapToSource(an, m) ==
    IF m.k \in {"warn_nonumber", "warn_redefined", "warn_empty"}
    THEN [some |-> TRUE, fline |-> m.fline, a |-> 0, b |-> an.infos[m.fline + 1].lne]
    ELSE IF m.k = "error" /\ ~m.hasloc
    THEN LET info == an.infos[m.fline + 1]
             r == ErrRange([err |-> info.err, ea |-> info.ea, eb |-> info.eb], an.lines[m.fline + 1])
         IN  [some |-> TRUE, fline |-> m.fline, a |-> r[1], b |-> r[2]]
    ELSE IF m.fline < 0 THEN [some |-> FALSE, fline |-> 0, a |-> 0, b |-> 0]
    ELSE LET tr == TokRangeOf(an.infos[m.fline + 1], m.tok)
         IN  [some |-> tr.some, fline |-> m.fline, a |-> tr.a, b |-> tr.b]

\* token classes per file line (the LSP's semantic tokens)
TokenClass(t) ==
    CASE t.k = "symbol" -> "symbol" [] t.k = "stringliteral" -> "string" [] t.k = "numericliteral" -> "number"
      [] t.k = "remark" -> "comment" [] t.k = "data" -> "data"
      [] t.k \in {"colon", "semicolon", "comma", "leftparen", "rightparen"} -> "delimiter"
      [] t.k \in {"plus", "minus", "multiply", "divide", "caret", "equals", "notequals", "lessthan", "lessthanorequalto",
                  "greaterthan", "greaterthanorequalto", "and", "or", "not"} -> "operator"
      [] OTHER -> "keyword"

LineTokens(info) ==
    IF ~info.numbered THEN <<>>
    ELSE <<[c |-> "number", a |-> 0, b |-> info.lne]>> \o
         [i \in 1..Len(info.toks) |-> [c |-> TokenClass(info.toks[i]), a |-> info.ranges[i][1], b |-> info.ranges[i][2]]]

HasErrors(an) == \E i \in 1..Len(an.msgs) : an.msgs[i].k = "error"

\* The static pass alone, over a stored program: the sequence of [line, err] it reports.
ProgramErrors(I) ==
    LET A0 == [AStart EXCEPT !.prog = I.prog, !.keys = I.keys]
        w == IF HasFirst(A0) THEN WalkProgram([A0 EXCEPT !.loc = Loc(FirstKey(A0), 0)], <<>>, <<>>) ELSE [A |-> A0, msgs |-> <<>>]
    IN  [i \in 1..Len(w.msgs) |-> [line |-> w.msgs[i].line, err |-> w.msgs[i].err]]
=============================================================================
