-------------------------------- MODULE Num --------------------------------
(***************************************************************************)
(* Numbers of the abasic model.                                            *)
(*                                                                         *)
(* abasic computes in IEEE-754 doubles; TLC has 32-bit integers and no     *)
(* floating point.  The model therefore works in an EXACT SUB-DOMAIN of    *)
(* f64: dyadic rationals n / 2^d with |n| < 2^30 and d <= 20, plus         *)
(* negative zero.  On that domain IEEE + - * / neg floor abs compare and   *)
(* integer powers are exact, so the model's answer is THE answer.  Every   *)
(* operation tests its result; a result outside the domain (inexact, too   *)
(* large, inf, NaN) is `Opaque`: a number the model declines to predict.   *)
(* Consumers of an Opaque value that need its magnitude (control flow,     *)
(* subscripts) report "unknown" and the caller stops predicting.           *)
(*                                                                         *)
(*   [t |-> "n", n |-> Int, d |-> Nat]   the value n / 2^d, normalised     *)
(*   [t |-> "z", n |-> 0,  d |-> 0]      negative zero                     *)
(*   [t |-> "o", n |-> 0,  d |-> 0]      opaque                            *)
(*   [t |-> "nan" | "pinf" | "ninf", n |-> 0, d |-> 0]                     *)
(*                                       the IEEE special values, with     *)
(*                                       their exact IEEE / C99 rules      *)
(***************************************************************************)
EXTENDS Integers, Sequences, Bytes

NMAX == 1073741823          \* 2^30 - 1
DMAX == 20
IMAX == 2147483647          \* TLC's integer ceiling

RECURSIVE P2(_)
P2(i) == IF i = 0 THEN 1 ELSE 2 * P2(i - 1)
P2Tab == [i \in 0..30 |-> P2(i)]
RECURSIVE P5(_)
P5(i) == IF i = 0 THEN 1 ELSE 5 * P5(i - 1)
P5Tab == [i \in 0..13 |-> P5(i)]
RECURSIVE P10(_)
P10(i) == IF i = 0 THEN 1 ELSE 10 * P10(i - 1)
P10Tab == [i \in 0..9 |-> P10(i)]

Abs(x) == IF x < 0 THEN 0 - x ELSE x
Sgn(x) == IF x < 0 THEN 0 - 1 ELSE IF x > 0 THEN 1 ELSE 0
Max(a, b) == IF a >= b THEN a ELSE b
Min(a, b) == IF a <= b THEN a ELSE b

Opaque == [t |-> "o", n |-> 0, d |-> 0]
NegZero == [t |-> "z", n |-> 0, d |-> 0]
NInt(i) == IF Abs(i) > NMAX THEN Opaque ELSE [t |-> "n", n |-> i, d |-> 0]
NZero == [t |-> "n", n |-> 0, d |-> 0]
NOne == [t |-> "n", n |-> 1, d |-> 0]

NaN == [t |-> "nan", n |-> 0, d |-> 0]
PInf == [t |-> "pinf", n |-> 0, d |-> 0]
NInf == [t |-> "ninf", n |-> 0, d |-> 0]
Inf(neg) == IF neg THEN NInf ELSE PInf

IsOpaque(x) == x.t = "o"
IsExact(x) == x.t # "o"
IsNaN(x) == x.t = "nan"
IsInf(x) == x.t \in {"pinf", "ninf"}
IsFin(x) == x.t \in {"n", "z"}                           \* a finite value the model knows exactly
IsZero(x) == x.t = "z" \/ (x.t = "n" /\ x.n = 0)
IsNeg(x) == x.t = "z" \/ x.t = "ninf" \/ (x.t = "n" /\ x.n < 0)          \* sign bit (a NaN's sign is never observable)
IsInt(x) == x.t = "n" /\ x.d = 0

\* Normalising constructor: n / 2^d.
RECURSIVE Mk(_, _)
Mk(n, d) ==
    IF n = 0 THEN NZero
    ELSE IF d > 0 /\ n % 2 = 0 THEN Mk(n \div 2, d - 1)
    ELSE IF Abs(n) > NMAX \/ d > DMAX THEN Opaque
    ELSE [t |-> "n", n |-> n, d |-> d]

\* n * 2^k without overflowing TLC; Opaque if it does not fit.
CanShift(n, k) == k <= 30 /\ Abs(n) <= NMAX \div P2Tab[k]

NNeg(x) ==
    IF x.t = "o" THEN Opaque
    ELSE IF x.t = "nan" THEN NaN
    ELSE IF x.t = "pinf" THEN NInf
    ELSE IF x.t = "ninf" THEN PInf
    ELSE IF x.t = "z" THEN NZero
    ELSE IF x.n = 0 THEN NegZero
    ELSE [x EXCEPT !.n = 0 - x.n]

NAbs(x) ==
    IF x.t = "o" THEN Opaque
    ELSE IF x.t = "nan" THEN NaN
    ELSE IF IsInf(x) THEN PInf
    ELSE IF x.t = "z" THEN NZero
    ELSE [x EXCEPT !.n = Abs(x.n)]

NAdd(x, y) ==
    IF x.t = "nan" \/ y.t = "nan" THEN NaN             \* NaN + anything, whatever the opaque operand is
    ELSE IF x.t = "o" \/ y.t = "o" THEN Opaque
    ELSE IF IsInf(x) /\ IsInf(y) THEN (IF x.t = y.t THEN x ELSE NaN)
    ELSE IF IsInf(x) THEN x
    ELSE IF IsInf(y) THEN y
    ELSE IF IsZero(x) /\ IsZero(y) THEN (IF x.t = "z" /\ y.t = "z" THEN NegZero ELSE NZero)
    ELSE IF IsZero(x) THEN y
    ELSE IF IsZero(y) THEN x
    ELSE LET dd == Max(x.d, y.d)
             sx == dd - x.d
             sy == dd - y.d
         IN  IF ~CanShift(x.n, sx) \/ ~CanShift(y.n, sy) THEN Opaque
             ELSE Mk(x.n * P2Tab[sx] + y.n * P2Tab[sy], dd)

NSub(x, y) == NAdd(x, NNeg(y))

NMul(x, y) ==
    IF x.t = "nan" \/ y.t = "nan" THEN NaN
    ELSE IF x.t = "o" \/ y.t = "o" THEN Opaque
    ELSE IF IsInf(x) \/ IsInf(y) THEN (IF IsZero(x) \/ IsZero(y) THEN NaN ELSE Inf(IsNeg(x) # IsNeg(y)))
    ELSE IF IsZero(x) \/ IsZero(y) THEN (IF IsNeg(x) # IsNeg(y) THEN NegZero ELSE NZero)
    ELSE IF Abs(x.n) > NMAX \div Abs(y.n) THEN Opaque
    ELSE Mk(x.n * y.n, x.d + y.d)

\* Odd part and 2-adic valuation of a positive integer.
RECURSIVE Val2(_)
Val2(m) == IF m % 2 = 0 THEN 1 + Val2(m \div 2) ELSE 0
OddPart(m) == m \div P2Tab[Val2(m)]

\* Division.  Result record [e |-> "" | "divzero", v |-> Num].
NDiv(x, y) ==
    IF y.t # "o" /\ IsZero(y) THEN [e |-> "divzero", v |-> NZero]     \* the divisor is tested first, whatever the dividend
    ELSE IF x.t = "nan" \/ y.t = "nan" THEN [e |-> "", v |-> NaN]
    ELSE IF x.t = "o" \/ y.t = "o" THEN [e |-> "", v |-> Opaque]
    ELSE IF IsInf(x) THEN [e |-> "", v |-> IF IsInf(y) THEN NaN ELSE Inf(IsNeg(x) # IsNeg(y))]
    ELSE IF IsInf(y) THEN [e |-> "", v |-> IF IsNeg(x) # IsNeg(y) THEN NegZero ELSE NZero]
    ELSE IF IsZero(x) THEN [e |-> "", v |-> IF IsNeg(x) # IsNeg(y) THEN NegZero ELSE NZero]
    ELSE LET ay == Abs(y.n)
             k  == Val2(ay)
             m  == ay \div P2Tab[k]
             ax == Abs(x.n)
             sg == IF (x.n < 0) # (y.n < 0) THEN 0 - 1 ELSE 1
         IN  IF ax % m # 0 THEN [e |-> "", v |-> Opaque]
             ELSE LET q == ax \div m
                      \* value = q * 2^(y.d - x.d - k)
                      ex == y.d - x.d - k
                  IN  IF ex >= 0
                      THEN (IF CanShift(q, ex) THEN [e |-> "", v |-> Mk(sg * q * P2Tab[ex], 0)]
                            ELSE [e |-> "", v |-> Opaque])
                      ELSE [e |-> "", v |-> Mk(sg * q, 0 - ex)]

NFloor(x) ==
    IF x.t # "n" THEN x                       \* floor(-0) = -0; NaN, infinities and opaque stay what they are
    ELSE IF x.d = 0 THEN x
    ELSE LET f == x.n \div P2Tab[x.d]         \* TLC \div floors
         IN  IF f = 0 /\ x.n < 0 THEN NegZero  \* cannot happen: floor of negative fraction is <= -1
             ELSE Mk(f, 0)

\* `f64 as i64` / `as u64` truncation toward zero, for exact values only.
NTrunc(x) == IF x.t # "n" THEN 0 ELSE Sgn(x.n) * (Abs(x.n) \div P2Tab[x.d])

\* Comparison of known values: -1, 0, 1, or 2 = unordered (a NaN operand).
NCmp(x, y) ==
    IF x.t = "nan" \/ y.t = "nan" THEN 2
    ELSE IF IsInf(x) \/ IsInf(y)
    THEN LET cx == IF x.t = "pinf" THEN 1 ELSE IF x.t = "ninf" THEN 0 - 1 ELSE 0
             cy == IF y.t = "pinf" THEN 1 ELSE IF y.t = "ninf" THEN 0 - 1 ELSE 0
         IN  IF cx < cy THEN 0 - 1 ELSE IF cx > cy THEN 1 ELSE 0
    ELSE
    LET xi == IF x.t = "n" THEN x.n \div P2Tab[x.d] ELSE 0
        yi == IF y.t = "n" THEN y.n \div P2Tab[y.d] ELSE 0
        xf == IF x.t = "n" THEN (x.n % P2Tab[x.d]) * P2Tab[DMAX - x.d] ELSE 0
        yf == IF y.t = "n" THEN (y.n % P2Tab[y.d]) * P2Tab[DMAX - y.d] ELSE 0
    IN  IF xi < yi THEN 0 - 1 ELSE IF xi > yi THEN 1
        ELSE IF xf < yf THEN 0 - 1 ELSE IF xf > yf THEN 1 ELSE 0

NEq(x, y) == NCmp(x, y) = 0

\* powf (C99 / IEEE pow).  Exact for small integer exponents while the
\* product fits and the reciprocal is dyadic; the special cases of Annex F
\* (zero, one, infinities, NaN, negative base with a fractional exponent)
\* exactly; certain overflow / underflow (|x| >= 2 or <= 1/2 with an integer
\* exponent beyond 1100) as infinity / zero.
RECURSIVE NPowNat(_, _)
NPowNat(x, k) == IF k = 0 THEN NOne ELSE NMul(NPowNat(x, k - 1), x)

IsOddInt(y) == y.t = "n" /\ y.d = 0 /\ y.n % 2 = 1
AbsCmp1(x) == IF Abs(x.n) < P2Tab[x.d] THEN 0 - 1 ELSE IF Abs(x.n) > P2Tab[x.d] THEN 1 ELSE 0     \* |x| against 1, x finite non-zero
SignedZero(neg) == IF neg THEN NegZero ELSE NZero

NPow(x, y) ==
    IF y.t # "o" /\ IsZero(y) THEN NOne                       \* pow(anything, +-0) = 1, even NaN
    ELSE IF x.t = "n" /\ x.n = 1 /\ x.d = 0 THEN NOne          \* pow(1, anything) = 1, even NaN
    ELSE IF x.t = "nan" \/ y.t = "nan" THEN NaN
    ELSE IF x.t = "o" \/ y.t = "o" THEN Opaque
    ELSE IF IsInf(y) THEN
        (IF IsZero(x) THEN (IF y.t = "pinf" THEN NZero ELSE PInf)
         ELSE IF IsInf(x) THEN (IF y.t = "pinf" THEN PInf ELSE NZero)
         ELSE LET c == AbsCmp1(x)
              IN  IF c = 0 THEN NOne                               \* pow(-1, +-inf) = 1
                  ELSE IF (c > 0) = (y.t = "pinf") THEN PInf ELSE NZero)
    ELSE \* y is finite and non-zero: y.t = "n"
    IF x.t = "pinf" THEN (IF y.n > 0 THEN PInf ELSE NZero)
    ELSE IF x.t = "ninf" THEN (IF y.n > 0 THEN Inf(IsOddInt(y)) ELSE SignedZero(IsOddInt(y)))
    ELSE IF IsZero(x) THEN
        (LET neg == IsNeg(x) /\ IsOddInt(y)
         IN  IF y.n > 0 THEN SignedZero(neg) ELSE Inf(neg))
    ELSE \* x is finite, non-zero, not 1
    IF x.n < 0 /\ y.d # 0 THEN NaN                                \* negative base, fractional exponent
    ELSE IF y.d # 0 THEN Opaque
    ELSE IF Abs(y.n) <= 64 THEN
        (IF y.n > 0 THEN NPowNat(x, y.n)
         ELSE LET p == NPowNat(x, 0 - y.n) IN NDiv(NOne, p).v)
    ELSE LET c == AbsCmp1(x)
             neg == x.n < 0 /\ IsOddInt(y)
         IN  IF c = 0 THEN (IF neg THEN NInt(0 - 1) ELSE NOne)     \* x = -1
             ELSE IF (Abs(x.n) >= 2 * P2Tab[x.d] \/ 2 * Abs(x.n) <= P2Tab[x.d]) /\ Abs(y.n) >= 1100
                  THEN (IF (c > 0) = (y.n > 0) THEN Inf(neg) ELSE SignedZero(neg))
             ELSE Opaque

(***************************************************************************)
(* Decimal text -> number.                                                 *)
(*                                                                         *)
(* F64Syntax recognises exactly the grammar of Rust's `f64::from_str`:     *)
(*   [+-] ( inf | infinity | nan            (any letter case)              *)
(*        | digits [ . [digits] ] [exp] | . digits [exp] )                 *)
(*   exp = (e|E) [+-] digits                                               *)
(* F64Value gives the value when it lies in the exact domain.              *)
(***************************************************************************)
RECURSIVE DigitRun(_, _)
DigitRun(s, i) == \* number of digit bytes in s starting at 1-based position i
    IF i <= Len(s) /\ IsDigit(s[i]) THEN 1 + DigitRun(s, i + 1) ELSE 0

LowerSeq(s) == [i \in 1..Len(s) |-> Lower(s[i])]

\* Parse record: ok, special (inf/nan), neg, ip/fp/exd digit runs (byte seqs), exn (exponent sign)
F64Parse(s) ==
    LET hasSign == Len(s) >= 1 /\ s[1] \in {43, 45}
        neg == hasSign /\ s[1] = 45
        p0 == IF hasSign THEN 2 ELSE 1
        rest == SubSeq(s, p0, Len(s))
        low == LowerSeq(rest)
        bad == [ok |-> FALSE, special |-> FALSE, neg |-> neg, ip |-> <<>>, fp |-> <<>>, exd |-> <<>>, exn |-> FALSE]
    IN  IF low \in {B("inf"), B("infinity"), B("nan")}
        THEN [bad EXCEPT !.ok = TRUE, !.special = TRUE]
        ELSE
        LET ni == DigitRun(s, p0)
            p1 == p0 + ni
            hasDot == p1 <= Len(s) /\ s[p1] = DOT
            nf == IF hasDot THEN DigitRun(s, p1 + 1) ELSE 0
            p2 == IF hasDot THEN p1 + 1 + nf ELSE p1
            hasExp == p2 <= Len(s) /\ s[p2] \in {69, 101}
            expSign == hasExp /\ p2 + 1 <= Len(s) /\ s[p2 + 1] \in {43, 45}
            expNeg == expSign /\ s[p2 + 1] = 45
            p3 == IF hasExp THEN (IF expSign THEN p2 + 2 ELSE p2 + 1) ELSE p2
            ne == IF hasExp THEN DigitRun(s, p3) ELSE 0
            p4 == p3 + ne
            expDigits == SubSeq(s, p3, p3 + ne - 1)
        IN  IF ni + nf = 0 THEN bad
            ELSE IF hasExp /\ ne = 0 THEN bad
            ELSE IF p4 # Len(s) + 1 THEN bad
            ELSE [ok |-> TRUE, special |-> FALSE, neg |-> neg,
                  ip |-> SubSeq(s, p0, p0 + ni - 1),
                  fp |-> IF hasDot THEN SubSeq(s, p1 + 1, p1 + nf) ELSE <<>>,
                  exd |-> expDigits, exn |-> expNeg]

F64Syntax(s) == F64Parse(s).ok

RECURSIVE StripLeadingZeros(_)
StripLeadingZeros(s) == IF s # <<>> /\ s[1] = 48 THEN StripLeadingZeros(Tail(s)) ELSE s
RECURSIVE StripTrailingZeros(_)
StripTrailingZeros(s) == IF s # <<>> /\ s[Len(s)] = 48 THEN StripTrailingZeros(SubSeq(s, 1, Len(s) - 1)) ELSE s

RECURSIVE DigitsToNat(_)      \* at most 9 digits
DigitsToNat(s) == IF s = <<>> THEN 0 ELSE DigitsToNat(SubSeq(s, 1, Len(s) - 1)) * 10 + (s[Len(s)] - 48)

\* 2^1024 - 2^970: the least real that rounds to infinity (ties to even).
F64Limit == B("179769313486231580793728971405303415079934132710037826936173778980444968292764750946649017977587207096330286416692887910946555547851940402630657488671505820681908902000708383676273854845817711531764475730270069855571366959622842914819860834936475292719074168444365510704342711559699508093042880177904174497792")
RECURSIVE DigitsGE(_, _)
DigitsGE(a, b) == \* equal-length digit strings: a >= b
    IF a = <<>> THEN TRUE ELSE IF a[1] > b[1] THEN TRUE ELSE IF a[1] < b[1] THEN FALSE ELSE DigitsGE(Tail(a), Tail(b))
Zeros(k) == [i \in 1..k |-> 48]

\* Value of a syntactically valid numeral.
F64Value(s) ==
    LET p == F64Parse(s)
    IN  IF ~p.ok THEN Opaque
        ELSE IF p.special THEN (IF Lower(s[Len(s)]) = 110 /\ Lower(s[Len(s) - 1]) = 97 THEN NaN ELSE Inf(p.neg))     \* "..an" is nan; inf / infinity
        ELSE
        LET fpz == StripTrailingZeros(p.fp)
            digs == StripLeadingZeros(p.ip \o fpz)          \* significant digits D
            exd == StripLeadingZeros(p.exd)
            exmag == IF Len(exd) > 3 THEN 1000 ELSE DigitsToNat(exd)
            ex == IF p.exn THEN 0 - exmag ELSE exmag
            scale == ex - Len(fpz)                           \* value = D * 10^scale
            mag == Len(digs) + scale                         \* 10^(mag-1) <= |value| < 10^mag
        IN  IF digs = <<>> THEN (IF p.neg THEN NegZero ELSE NZero)
            ELSE IF Len(exd) > 3 /\ Len(digs) > 500 THEN Opaque
            ELSE IF mag > 309 THEN Inf(p.neg)                \* >= 10^309: rounds to infinity
            ELSE IF mag < 0 - 330 THEN (IF p.neg THEN NegZero ELSE NZero)     \* < 10^-330: rounds to zero
            ELSE IF mag = 309 /\ DigitsGE(IF scale >= 0 THEN digs \o Zeros(scale) ELSE SubSeq(digs, 1, 309), F64Limit) THEN Inf(p.neg)
            ELSE IF Len(digs) > 9 THEN Opaque
            ELSE LET D == DigitsToNat(digs)
                     sg == IF p.neg THEN 0 - 1 ELSE 1
                 IN  IF scale >= 0
                     THEN (IF scale > 9 \/ D > NMAX \div P10Tab[scale] THEN Opaque
                           ELSE Mk(sg * D * P10Tab[scale], 0))
                     ELSE LET k == 0 - scale
                          IN  IF k > 13 THEN Opaque
                              ELSE IF D % P5Tab[k] # 0 THEN Opaque
                              ELSE Mk(sg * (D \div P5Tab[k]), k)

(***************************************************************************)
(* Number -> text: Rust's `Display` for f64 (shortest round-trip, never    *)
(* scientific).  For the values below the exact decimal expansion has at   *)
(* most 10 significant digits, so it IS the shortest round-trip string.    *)
(* Returns [ok, s]; ok = FALSE means the model does not predict the text.  *)
(***************************************************************************)
RECURSIVE PadLeft(_, _)
PadLeft(s, w) == IF Len(s) >= w THEN s ELSE PadLeft(<<48>> \o s, w)

NPrint(x) ==
    IF x.t = "o" THEN [ok |-> FALSE, s |-> <<>>]
    ELSE IF x.t = "nan" THEN [ok |-> TRUE, s |-> B("NaN")]
    ELSE IF x.t = "pinf" THEN [ok |-> TRUE, s |-> B("inf")]
    ELSE IF x.t = "ninf" THEN [ok |-> TRUE, s |-> B("-inf")]
    ELSE IF x.t = "z" THEN [ok |-> TRUE, s |-> B("-0")]
    ELSE IF x.d = 0 THEN [ok |-> TRUE, s |-> (IF x.n < 0 THEN <<45>> ELSE <<>>) \o NatDigits(Abs(x.n))]
    ELSE IF x.d > 13 \/ Abs(x.n) % P2Tab[x.d] > IMAX \div P5Tab[x.d] THEN [ok |-> FALSE, s |-> <<>>]
    ELSE LET a == Abs(x.n)
             ip == a \div P2Tab[x.d]
             fr == a % P2Tab[x.d]                 \* fr / 2^d = fr * 5^d / 10^d
             fd == PadLeft(NatDigits(fr * P5Tab[x.d]), x.d)
         IN  [ok |-> TRUE,
              s |-> (IF x.n < 0 THEN <<45>> ELSE <<>>) \o NatDigits(ip) \o <<DOT>> \o StripTrailingZeros(fd)]
=============================================================================
