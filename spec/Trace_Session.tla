---------------------------- MODULE Trace_Session ----------------------------
(***************************************************************************)
(* Implementation -> specification for host sessions.  The trace file has  *)
(* one event per host call made on the real interpreter:                   *)
(*   c     the call (k = "reset" starts a new run from a fresh interpreter *)
(*         with the given flags; otherwise submit / continue / provide /   *)
(*         break / replace / randomize with its argument)                  *)
(*   dom   FALSE when the argument text is outside the model's domain      *)
(*   panic TRUE when the call did not return (caught panic)                *)
(*   res, out, snap   the result, the outputs and the state after the call *)
(*   edit  after a successful numbered-line entry: the line's key and the  *)
(*         tokens now stored under it (none = the line was deleted)        *)
(* The trace spec folds the SAME Step function TLC explores over the       *)
(* events; every disagreement is printed as a VERDICT row naming the       *)
(* fields that differ.  After a disagreement, an unknown prediction or a   *)
(* panic the rest of that run is skipped (lost = TRUE) until the next      *)
(* reset, so that nothing is judged from a state the model does not share. *)
(***************************************************************************)
EXTENDS Conform, Json, IOUtils

Rec == ndJsonDeserialize(IOEnv.TRACE)

VARIABLES l, it, lost, judged     \* judged: events compared with a prediction so far
vars == <<l, it, lost, judged>>

CallOf(ev) == [k |-> ev.c.k, text |-> ev.c.text, seed |-> ev.c.seed]

Verdict(i, kind, fields) == PrintT(<<"VERDICT", ToJson([i |-> i, kind |-> kind, fields |-> fields])>>)

Init == l = 0 /\ it = Fresh /\ lost = TRUE /\ judged = 0

Next ==
    /\ l < Len(Rec)
    /\ l' = l + 1
    /\ judged' = IF lost \/ Rec[l + 1].c.k = "reset" THEN judged ELSE judged + 1
    /\ IF l + 1 = Len(Rec) THEN PrintT(<<"JUDGED", judged', Len(Rec)>>) ELSE TRUE
    /\ LET ev == Rec[l + 1]
       IN  IF ev.c.k = "reset"
           THEN /\ it' = [Fresh EXCEPT !.trace = ev.c.trace, !.warn = ev.c.warn]
                /\ lost' = FALSE
           ELSE IF lost THEN UNCHANGED <<it, lost>>
           ELSE IF ev.panic
           THEN /\ Verdict(l + 1, "panic", <<"panic">>)
                /\ lost' = TRUE /\ UNCHANGED it
           ELSE IF ~ev.dom \/ ~Legal(it, CallOf(ev))
           THEN /\ (~Legal(it, CallOf(ev)) /\ ev.dom) => Verdict(l + 1, "illegal", <<"protocol">>)
                /\ lost' = TRUE /\ UNCHANGED it
           ELSE LET r == Step(it, CallOf(ev))
                IN  IF Unknown(r)
                    THEN /\ Verdict(l + 1, "unknown", <<>>)
                         /\ lost' = TRUE /\ UNCHANGED it
                    ELSE LET cl == IF r.res.ok \/ ev.c.k \notin {"submit", "continue"} THEN [ok |-> FALSE, lines |-> <<>>]
                                   ELSE CaretLines(r.I, r.res, IF ev.c.k = "submit" THEN ev.c.text ELSE <<>>)
                             d == ResDiff(r.res, ev.res) \o OutsDiff(r.out, ev.out) \o SnapDiff(r.I, ev.snap)
                                  \o (IF cl.ok /\ ~r.res.ok /\ ~ev.res.ok /\ (ev.c.k = "submit" \/ r.res.hl) /\ cl.lines # ev.caret THEN <<"caret">> ELSE <<>>)
                                  \o (IF ev.edit.some /\ ~(IF ev.edit.toks = <<>> THEN ev.edit.k \notin DOMAIN r.I.prog
                                                            ELSE ev.edit.k \in DOMAIN r.I.prog /\ ToksAgree(r.I.prog[ev.edit.k], ev.edit.toks))
                                      THEN <<"prog">> ELSE <<>>)
                         IN  /\ d # <<>> => Verdict(l + 1, "diff", d)
                             /\ lost' = (d # <<>>)
                             /\ it' = r.I

Spec == Init /\ [][Next]_vars
Consumed == IF TLCGet("stats").diameter - 1 = Len(Rec) THEN TRUE
            ELSE PrintT(<<"UNCONSUMED", TLCGet("stats").diameter - 1, Len(Rec)>>) /\ FALSE
=============================================================================
