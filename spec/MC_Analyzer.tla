----------------------------- MODULE MC_Analyzer -----------------------------
(***************************************************************************)
(* C05 (and the input of C20): every file of at most MaxLines lines over a *)
(* line alphabet that contains every shape the property lists -- numbered, *)
(* unnumbered, blank, duplicate number, emptied (`10`), untokenizable in   *)
(* each of the three ways, CR line ending, non-ASCII text in strings, REM  *)
(* and illegal position, statements that fail the static check, undefined  *)
(* and unused symbols.  TLC checks on the Analyzer model that analysis     *)
(* yields one token list per file line and that every diagnostic maps to   *)
(* an in-bounds, character-aligned range on the line it names; each file   *)
(* is printed as a row that the harness analyses with the real analyzer.   *)
(***************************************************************************)
EXTENDS AnalyzerProps, Json

CONSTANT MaxLines, EmitRows

LineAlphabet == { B("10 X = 1"), B("10"), B("10 PRINT 1 +"), B("10 PRINT \""), B("20 PRINT X"), B("PRINT 1"), <<>>,
                  B("30 ") \o <<195, 169>>, B("30 A = 1.2.3"), B("20 GOTO 99"),
                  B("40 PRINT \"") \o <<195, 169>> \o B("\" + 1"), B("50 REM ") \o <<195, 169>>,
                  B("15 FOR I = 1 TO 2: NEXT I") \o <<CR>>, B("20 DEF F(X) = X: PRINT F(Y)"), B("60 A$ = 1"), B("  70 END"),
                  B("20 Y = A$ = B$"),
                  \* indented lines whose diagnostic or token ends on a multi-byte character
                  B(" 30 ") \o <<195, 169>>, <<9>> \o B("50 REM ") \o <<195, 169>>,
                  B(" 40 PRINT \"") \o <<226, 130, 172>> \o B("\" + 1"),
                  \* characters that are numeric but not ASCII digits, where a line number is expected
                  <<239, 188, 146, 239, 188, 144>> \o B(" PRINT 1"),
                  \* a byte order mark (it is text like any other)
                  <<239, 187, 191>> \o B("10 PRINT \"") \o <<226, 130, 172>> \o B("\";X"),
                  B("1") \o <<239, 188, 144>> \o B(" PRINT 2") }

VARIABLES file
vars == <<file>>
Text == IF file = <<>> THEN <<>> ELSE JoinWith(file, <<LF>>)

Init == file = <<>>
Next == /\ Len(file) < MaxLines
        /\ \E l \in LineAlphabet : file' = Append(file, l)

C05 == C05Holds(Text)

Row == LET an == Analyze(Text)
       IN  [text |-> Text,
            msgs |-> [i \in 1..Len(an.msgs) |-> RowMsg(an, an.msgs[i])],
            symmsgs |-> SetToSeqBy({RowMsg(an, m) : m \in an.symmsgs}),
            tokens |-> [i \in 1..Len(an.infos) |-> LineTokens(an.infos[i])]]
EmitRow == EmitRows => PrintT(<<"ROW", ToJson(Row)>>)
=============================================================================
