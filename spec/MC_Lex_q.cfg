INIT Init
NEXT Next
CONSTANT MaxLex = 2
CONSTANT Emit = TRUE
INVARIANT C12
INVARIANT C13
INVARIANT C14
INVARIANT EmitRow
VIEW LineView
CHECK_DEADLOCK FALSE
