------------------------------- MODULE Bytes -------------------------------
(***************************************************************************)
(* Text in the abasic model is a sequence of bytes (0..255), exactly as    *)
(* the Rust code sees a `String`: UTF-8.  TLC cannot index a TLA+ string,  *)
(* but it supports Len, \o and SubSeq on strings, so `B("10 PRINT 1")`     *)
(* converts a printable-ASCII literal into bytes through a lookup table;   *)
(* that keeps the instance alphabets readable.                             *)
(***************************************************************************)
EXTENDS Naturals, Sequences, FiniteSets

Chr == << " ", "!", "\"", "#", "$", "%", "&", "'", "(", ")", "*", "+", ",", "-", ".", "/",
          "0", "1", "2", "3", "4", "5", "6", "7", "8", "9", ":", ";", "<", "=", ">", "?",
          "@", "A", "B", "C", "D", "E", "F", "G", "H", "I", "J", "K", "L", "M", "N", "O",
          "P", "Q", "R", "S", "T", "U", "V", "W", "X", "Y", "Z", "[", "\\", "]", "^", "_",
          "`", "a", "b", "c", "d", "e", "f", "g", "h", "i", "j", "k", "l", "m", "n", "o",
          "p", "q", "r", "s", "t", "u", "v", "w", "x", "y", "z", "{", "|", "}", "~" >>

OrdTab == [c \in {Chr[i] : i \in 1..95} |-> 31 + (CHOOSE i \in 1..95 : Chr[i] = c)]

\* Printable-ASCII TLA+ string -> byte sequence.
B(str) == [i \in 1..Len(str) |-> OrdTab[SubSeq(str, i, i)]]

Byte == 0..255

TAB == 9
LF == 10
FF == 12
CR == 13
SP == 32
QUOTE == 34
DOLLAR == 36
COMMA == 44
DOT == 46
COLON == 58

IsDigit(b) == b >= 48 /\ b <= 57
IsUpperAlpha(b) == b >= 65 /\ b <= 90
IsLowerAlpha(b) == b >= 97 /\ b <= 122
IsAlpha(b) == IsUpperAlpha(b) \/ IsLowerAlpha(b)
IsAlnum(b) == IsAlpha(b) \/ IsDigit(b)
Upper(b) == IF IsLowerAlpha(b) THEN b - 32 ELSE b
Lower(b) == IF IsUpperAlpha(b) THEN b + 32 ELSE b

\* u8::is_ascii_whitespace: space, tab, LF, FF, CR (not VT).
IsAsciiWs(b) == b \in {SP, TAB, LF, FF, CR}
\* LineCruncher::is_basic_whitespace: the same without LF.
IsBasicWs(b) == b \in {SP, TAB, FF, CR}

UpperSeq(s) == [i \in 1..Len(s) |-> Upper(s[i])]

\* 0-based half-open slice s[a..b) as the Rust code writes it.
Slice(s, a, b) == SubSeq(s, a + 1, b)
From(s, a) == SubSeq(s, a + 1, Len(s))

IsPrefixAt(p, s, i) == \* p occurs in s at 0-based offset i
    /\ i + Len(p) <= Len(s)
    /\ \A k \in 1..Len(p) : s[i + k] = p[k]

\* Lexicographic byte order (Rust's Ord on String).
RECURSIVE BytesLess(_, _)
BytesLess(a, b) ==
    IF b = <<>> THEN FALSE
    ELSE IF a = <<>> THEN TRUE
    ELSE IF a[1] < b[1] THEN TRUE
    ELSE IF a[1] > b[1] THEN FALSE
    ELSE BytesLess(Tail(a), Tail(b))

\* Number of bytes in the UTF-8 sequence whose lead byte is b (1 for stray bytes).
Utf8Width(b) == IF b < 128 THEN 1
                ELSE IF b >= 240 THEN 4
                ELSE IF b >= 224 THEN 3
                ELSE IF b >= 192 THEN 2
                ELSE 1
IsUtf8Cont(b) == b >= 128 /\ b < 192
\* i (0-based, 0..Len) is a character boundary of s.
IsCharBoundary(s, i) == i = 0 \/ i = Len(s) \/ (i > 0 /\ i < Len(s) /\ ~IsUtf8Cont(s[i + 1]))

\* Length in UTF-16 code units of the first n bytes of s (s valid UTF-8).
RECURSIVE Utf16Len(_, _)
Utf16Len(s, n) ==
    IF n <= 0 THEN 0
    ELSE LET b == s[n]
         IN  Utf16Len(s, n - 1) +
             (IF IsUtf8Cont(b) THEN 0 ELSE IF b >= 240 THEN 2 ELSE 1)

\* Decimal digits of a natural number below 2^31.
RECURSIVE NatDigits(_)
NatDigits(n) == IF n < 10 THEN <<48 + n>> ELSE Append(NatDigits(n \div 10), 48 + (n % 10))

\* Flatten a sequence of byte sequences.
RECURSIVE Concat(_)
Concat(ss) == IF ss = <<>> THEN <<>> ELSE Head(ss) \o Concat(Tail(ss))

RECURSIVE JoinWith(_, _)
JoinWith(ss, sep) == IF ss = <<>> THEN <<>>
                     ELSE IF Len(ss) = 1 THEN ss[1]
                     ELSE ss[1] \o sep \o JoinWith(Tail(ss), sep)
=============================================================================
