------------------------------- MODULE MC_C06 -------------------------------
(***************************************************************************)
(* C06: the static checker and the interpreter agree on what is an error.  *)
(* Both exist in the model, so the property is a theorem about the model   *)
(* that TLC checks; conformance of each side then transfers it.            *)
(*                                                                         *)
(* Instance: every one-line program `10 <tokens>` over a 17-token          *)
(* alphabet, up to MaxLen tokens.  For each:                               *)
(*   converse  the line is straight-line (no conditional, control          *)
(*             transfer, INPUT, DEF or call) and the checker reports an    *)
(*             error  =>  running it from a fresh state fails;             *)
(*   forward   the checker reports no error  =>  the run does not fail     *)
(*             with a syntax error, a type mismatch or an undefined line.  *)
(* Each line is printed as a row; the harness analyses and runs it with    *)
(* the real components and checks the same two implications on them.       *)
(***************************************************************************)
EXTENDS Analyzer, Json

CONSTANT MaxLen, EmitRows

Alphabet == { TkS("symbol", B("X")), TkS("symbol", B("Y")), TkS("symbol", B("A$")), TkS("symbol", B("B$")),
              TkN(NInt(1)), TkS("stringliteral", B("s")), Tk("equals"), Tk("lessthan"), Tk("plus"), Tk("and"), Tk("not"),
              Tk("leftparen"), Tk("rightparen"), Tk("print"), Tk("let"), Tk("comma"), TkS("symbol", B("Z")) }

VARIABLES toks
vars == <<toks>>
Init == toks = <<>>
Next == /\ Len(toks) < MaxLen
        /\ \E t \in Alphabet : toks' = Append(toks, t)

K10 == <<49, 48>>
Prog == IF toks = <<>> THEN Fresh ELSE SetLine(Fresh, K10, toks)

\* run to idle: [ok, kind, unknown]
RECURSIVE RunOn(_, _)
RunOn(r, fuel) ==
    IF Unknown(r) THEN [ok |-> FALSE, kind |-> "unknown"]
    ELSE IF ~r.res.ok THEN [ok |-> FALSE, kind |-> r.res.kind]
    ELSE IF r.I.mode = "running" /\ fuel > 0 THEN RunOn(Step(r.I, CContinue), fuel - 1)
    ELSE [ok |-> TRUE, kind |-> ""]
RunResult == RunOn(Step(Prog, CSubmit(B("RUN"))), 50)

AErrs == ProgramErrors(Prog)
BadKinds == {"type_mismatch", "undefined_statement"}
IsBad(kind) == kind \in BadKinds \/ SubSeq(kind, 1, 6) = "syntax"
StraightLine == TRUE   \* the alphabet has no IF / GOTO / GOSUB / RETURN / NEXT / END / STOP / INPUT / DEF, and no function is ever defined

ListingBody0 == LET ll == ListLine(K10, toks) IN SubSeq(ll.s, 1, Len(ll.s) - 1)
\* Only token sequences that can be written down are programs: adjacent symbols and numerals
\* merge when spelled (blanks do not separate), so `X 1` is the one symbol X1.
Writable == toks = <<>> \/ LET pl == ParseLineNumber(ListingBody0) IN Tokenize(ListingBody0, pl.end).toks = toks

C06 == LET run == RunResult
       IN  ~Writable \/ run.kind = "unknown" \/
           (/\ (StraightLine /\ AErrs # <<>>) => ~run.ok
            /\ (AErrs = <<>>) => (run.ok \/ ~IsBad(run.kind)))

Row == [text |-> IF toks = <<>> THEN K10 ELSE ListingBody0, aerr |-> IF AErrs = <<>> THEN "" ELSE AErrs[1].err,
        run_ok |-> RunResult.ok, run_kind |-> RunResult.kind]
EmitRow == (EmitRows /\ Writable) => PrintT(<<"ROW", ToJson(Row)>>)
=============================================================================
