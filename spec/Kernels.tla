------------------------------- MODULE Kernels -------------------------------
(***************************************************************************)
(* A catalogue of small programs ("kernels") chosen so that every          *)
(* statement kind, both IF forms, nested FOR, NEXT of an outer loop, GOSUB *)
(* in THEN / ELSE, recursion to the frame cap, READ / RESTORE inside FOR,  *)
(* DEF with dynamic scoping, 1-3 dimensional arrays, STOP, INPUT in every  *)
(* syntactic position, runtime failures and a non-terminating loop all     *)
(* occur -- and the alphabets of lines a host may type around them.  The   *)
(* catalogue is an enumeration seed: the instances explore every host      *)
(* schedule over it.                                                       *)
(***************************************************************************)
EXTENDS Abasic

K(name, lines) == [name |-> name, lines |-> [i \in 1..Len(lines) |-> B(lines[i])]]

Kernels == {
    K("loops",   << "10 FOR I=1 TO 2", "20 FOR J=1 TO 2:PRINT I*10+J;:NEXT J", "30 NEXT I", "40 PRINT \"E\"" >>),
    K("nextouter", << "10 FOR I=1 TO 2", "20 FOR J=1 TO 3", "30 PRINT I;J", "40 NEXT I", "50 NEXT J" >>),
    K("gosub",   << "10 X=1", "20 IF X THEN GOSUB 100 ELSE PRINT \"NO\"", "30 IF X=0 THEN PRINT \"Z\" ELSE GOSUB 100",
                    "40 PRINT \"D\":END", "100 PRINT \"S\";:RETURN" >>),
    K("recurse", << "10 N=N+1:GOSUB 10" >>),
    K("data",    << "10 DATA 1,\"a\",x", "20 FOR I=1 TO 2:READ A,B$:PRINT A;B$:RESTORE:NEXT I", "30 READ A,B$,C$,D", "40 DATA 5" >>),
    K("def",     << "10 DEF F(X)=X+Y:DEF G(Y)=F(1)+Y", "20 Y=5:PRINT F(2);G(10)", "30 PRINT F(\"a\")" >>),
    K("arrays",  << "10 DIM A(2,2):A(1,2)=5:B(10)=1:C$(1,1,1)=\"q\"", "20 PRINT A(1,2);B(10);C$(1,1,1);A(0,0)", "30 PRINT B(11)" >>),
    K("stop",    << "10 X=1:STOP:PRINT X", "20 PRINT \"AFTER\"" >>),
    K("input",   << "10 PRINT \"A\";:INPUT X:PRINT X", "20 IF X THEN INPUT Y$ ELSE PRINT \"N\"", "30 FOR I=1 TO 2:INPUT A(I):NEXT I",
                    "40 PRINT Y$;A(1)+A(2)" >>),
    K("forever", << "10 I=I+1:IF I>2 THEN I=0", "20 GOTO 10" >>),
    K("ifs",     << "10 IF 0 THEN PRINT 1:PRINT 2", "20 IF 1 THEN 40 ELSE 30", "30 PRINT \"skipped\"",
                    "40 IF \"\" THEN PRINT \"e\" ELSE PRINT \"f\":PRINT \"g\"", "50 IF 2>1 AND NOT 0 THEN PRINT \"t\"" >>),
    K("divzero", << "10 X=1/0" >>),
    K("undef",   << "10 GOTO 99" >>),
    K("badreturn", << "10 PRINT 1:RETURN" >>),
    K("mistype", << "10 A$=1" >>),
    K("syntax",  << "10 PRINT (" >>),
    K("redim",   << "10 DIM A(5):DIM A(5)" >>),
    K("warn",    << "10 PRINT Q;R(1):R(2)=1:Z=1:PRINT Z" >>),
    K("rnd",     << "10 X=RND(1):Y=RND(0):PRINT X=Y;RND(-1)" >>),
    K("input3",  << "10 INPUT A:INPUT B:PRINT A;B", "20 IF 0 THEN INPUT A$ ELSE INPUT B$", "30 PRINT A$;B$;\"!\"" >>),
    K("warnmistype", << "10 A(1)=\"X\"", "20 DIM A(20):A(15)=3:PRINT A(15)" >>),
    K("warnmistype2", << "10 N$(2)=5" >>),
    K("datamid", << "10 PRINT 1", "20 DATA 1,2", "30 DATA 3:DATA 4", "40 READ A,B,C:PRINT A+B+C", "50 DATA 5", "60 REM r", "70 DATA 6" >>),
    K("inputfail", << "10 K=0:INPUT A(K-1)", "20 PRINT \"not reached\"", "30 INPUT B$:PRINT B$" >>),
    \* nested user functions whose inner call fails (the inspection PRINT G(0) at a breakpoint must leave no frame behind)
    K("fnnest",  << "10 DEF F(X)=1/X:DEF G(Y)=F(Y)+1", "20 Y=5:STOP", "30 PRINT Y;G(1)" >>),
    \* loops with an empty body on one line: still one statement per host call
    K("delay",   << "10 FOR I=1 TO 3:NEXT I:PRINT I", "20 FOR J=3 TO 1 STEP -1:NEXT J", "30 PRINT J" >>),
    \* which warning comes when: subscripts are evaluated before the array is looked at
    K("warnorder", << "10 PRINT A(A(0));D(I)", "20 B(E(1))=F9:PRINT C(-1)" >>),
    \* limit and step are fixed at entry -- computed BEFORE the loop variable is assigned
    K("forself", << "10 I=5:S=2", "20 FOR I=1 TO I+1:PRINT I;:NEXT I", "30 FOR S=S TO 6 STEP S:PRINT S;:NEXT S", "40 FOR J=J+3 TO J+4:PRINT J;:NEXT J" >>),
    \* STOP as the whole THEN clause, with an ELSE behind it: CONT resumes after the line
    K("stopelse", << "10 X=1:IF X THEN STOP ELSE PRINT \"NO\"", "20 PRINT \"AFTER\";X", "30 IF 0 THEN PRINT 1 ELSE STOP", "40 PRINT \"END\"" >>),
    \* STEP 0 counts as a positive step: the body runs once when the start is already past the limit
    K("stepzero", << "10 FOR I=5 TO 1 STEP 0:PRINT I;:NEXT I", "20 FOR J=3 TO 2 STEP S:PRINT J;:NEXT J", "30 PRINT \"E\"" >>),
    \* statements follow each other without a colon wherever an expression ends
    K("nocolon", << "10 C=C+1 INPUT A:PRINT C;A", "20 GOSUB 100 INPUT A$", "30 PRINT C A$ C+1", "40 END", "100 C=C+10 RETURN" >>),
    \* strings made by coercion (a numeric DATA item or reply read into a string variable) are strings like any other
    K("coerce",  << "10 DATA 5,2.5,abc", "20 READ A$,B$,C$:PRINT A$=\"5\";A$<>\"5\";B$=\"2.5\";C$=\"abc\";A$<\"6\"", "30 INPUT D$:PRINT D$=\"5\";D$=A$;D$+A$" >>),
    \* lines that are nothing but a jump: each is still one statement, one call
    K("tramp",   << "10 GOTO 30", "20 PRINT \"no\"", "30 GOTO 50", "40 PRINT \"no\"", "50 PRINT \"end\";:GOSUB 70", "60 END", "70 GOTO 80", "80 RETURN" >>),
    \* a second store of the wrong kind under a name that already holds a value
    K("kinds7",  << "10 X=1:X=\"HI\"" >>), K("kinds8", << "10 A$=\"YO\":A$=5" >>), K("kinds9", << "10 FOR I=1 TO 2:I=\"s\":NEXT I" >>),
    K("kinds10", << "10 DEF F(X,Y)=X:PRINT F(1,\"B\")", "20 DIM B(2):B(1)=1:B(1)=\"s\"" >>),
    K("input2",  << "10 IF 1 THEN INPUT X ELSE PRINT \"NO\"", "20 GOSUB 100:PRINT X;S$", "30 IF 0 THEN PRINT 1 ELSE INPUT Q(2):PRINT Q(2)", "40 END",
                    "100 INPUT S$:RETURN" >>)
}
KernelByName(n) == CHOOSE k \in Kernels : k.name = n

\* what the host may type at the prompt
Inspections == { B("PRINT X;I"), B("PRINT 1/0"), B("LIST"), B("NEXT Q9"), B("PRINT G(0)"),
                 B("DEF F(Q)=Q"), B("PRINT 1:PRINT 2") }      \* a DEF typed at the prompt is refused and must change nothing; a line of two statements is still one statement per call      \* NEXT Q9 fails (no such loop) and must disturb nothing
Probes == { B("RETURN"), B("NEXT I"), B("READ Q"), B("PRINT F(1)"), B("GOTO 20"), B("GOTO 30"), B("X=7") }
Edits == { B("15 REM"), B("10"), B("20 %"), B("100 RETURN") }
Commands0 == { B("RUN"), B("CONT") }

AllLines == Inspections \cup Probes \cup Edits \cup Commands0 \cup {B("TRACE"), B("NOTRACE"), B("NEW")}
ReplySet == { B("5"), B("abc"), B("1,2"), B("") }

RunOnly == { B("RUN") }
BreakLines == Inspections \cup Commands0
EditLines == Edits \cup Probes \cup Commands0 \cup { B("LIST") }
InputKernels == {k \in Kernels : k.name \in {"input", "input2", "input3", "inputfail", "stop"}}

(***************************************************************************)
(* The statement x position matrix: every statement kind in every syntactic *)
(* position a statement can take -- alone on its line, between two others,  *)
(* as the whole THEN clause (with and without an ELSE behind it), as the    *)
(* ELSE clause, and as the first of several statements after THEN.          *)
(* Line 5 sets the scene (a value, a loop to close, data to read, a         *)
(* function), line 20 shows what happened, 100 is a subroutine.             *)
(***************************************************************************)
MStmts == { [n |-> "print", s |-> B("PRINT \"S\";")], [n |-> "let", s |-> B("X=X+1")], [n |-> "stop", s |-> B("STOP")],
            [n |-> "end", s |-> B("END")], [n |-> "goto", s |-> B("GOTO 20")], [n |-> "gosub", s |-> B("GOSUB 100")],
            [n |-> "return", s |-> B("RETURN")], [n |-> "for", s |-> B("FOR J=1 TO 2")], [n |-> "next", s |-> B("NEXT I")],
            [n |-> "input", s |-> B("INPUT X")], [n |-> "read", s |-> B("READ A,B$")], [n |-> "restore", s |-> B("RESTORE")],
            [n |-> "dim", s |-> B("DIM B(2)")], [n |-> "def", s |-> B("DEF G(Y)=Y+X")], [n |-> "rem", s |-> B("REM r")],
            [n |-> "data", s |-> B("DATA 9")], [n |-> "if", s |-> B("IF X THEN PRINT \"T\";")], [n |-> "call", s |-> B("PRINT F(2);")],
            [n |-> "empty", s |-> <<>>] }
MCtxs == { [n |-> "alone", a |-> B("10 "), z |-> <<>>],
           [n |-> "mid", a |-> B("10 PRINT \"a\";:"), z |-> B(":PRINT \"z\";")],
           [n |-> "then", a |-> B("10 IF X THEN "), z |-> <<>>],
           [n |-> "thenelse", a |-> B("10 IF X THEN "), z |-> B(" ELSE PRINT \"e\";")],
           [n |-> "else", a |-> B("10 IF 0 THEN PRINT \"t\"; ELSE "), z |-> <<>>],
           [n |-> "thenmore", a |-> B("10 IF X THEN "), z |-> B(":PRINT \"m\";")],
           \* an ELSE behind a THEN clause of several statements is a syntax error when reached -- also after a break and CONT
           [n |-> "thenmoreelse", a |-> B("10 IF X THEN PRINT \"p\";:"), z |-> B(" ELSE PRINT \"e\";")],
           \* no colons at all: a statement ends where its last expression ends
           [n |-> "nocolon", a |-> B("10 X=X+1 "), z |-> B(" Z=X+2 PRINT \"z\";Z")],
           \* the IF is not the first statement of its line
           [n |-> "midthenelse", a |-> B("10 PRINT \"a\";:IF X THEN "), z |-> B(" ELSE PRINT \"e\";")] }
MatrixKernels == { [name |-> st.n \o "_" \o cx.n,
                    lines |-> << B("5 X=1:DEF F(Y)=Y*2:DATA 1,d,2,e:FOR I=1 TO 2"), cx.a \o st.s \o cx.z,
                                 B("20 PRINT \"|\";X;I:IF I<2 THEN NEXT I"), B("30 END"), B("100 PRINT \"sub\";:RETURN") >>]
                   : st \in MStmts, cx \in MCtxs }
RunCont == { B("RUN"), B("CONT") }
\* FOR / NEXT typed at the prompt: all immediate lines share one location, and the loop stack survives between them
ImmLoopLines == { B("FOR I=1 TO 2"), B("FOR J=1 TO 2"), B("FOR I=1 TO 1"), B("NEXT I"), B("NEXT J"), B("PRINT I;J"), B("X=0:FOR I=1 TO 3") }
MatrixInputKernels == {k \in MatrixKernels : \E cx \in MCtxs : k.name = "input_" \o cx.n}

\* What a host may type while a program sits exactly at a cap (32 frames, 32 loops): each must be refused or harmless
CapProbeLines == { B("GOSUB 10"), B("PRINT F(1)"), B("FOR Q=1 TO 2"), B("CONT"), B("RETURN") }
CapBreakKernels == { K("recurse", << "10 N=N+1:GOSUB 10" >>), K("recstop", << "10 N=N+1:IF N=32 THEN STOP", "20 GOSUB 10" >>),
                     K("fnrecstop", << "10 DEF F(X)=X+1:N=N+1:IF N=32 THEN STOP", "20 GOSUB 10" >>) }

(***************************************************************************)
(* Scale kernels: the same constructs at sizes the short alphabets never    *)
(* reach -- long names and strings, counts in the tens, values in the       *)
(* thousands, many DATA items, deeper nesting, longer programs.             *)
(***************************************************************************)
ScaleKernels == {
    K("sc_loop",  << "10 FOR I=1 TO 40:S=S+I:NEXT I:PRINT S;I", "20 FOR K=100 TO 10 STEP -7:C=C+1:NEXT K:PRINT C;K" >>),
    K("sc_names", << "10 ZEBRA9=1234:QUUX$=\"ABCDEFGHIJKLMNOP\":ZEBRA8=ZEBRA9+1", "20 PRINT ZEBRA9;ZEBRA8;QUUX$;QUUX$+QUUX$", "30 PRINT ZEBRA;QUU$" >>),
    K("sc_data",  << "10 DATA 1,2,3,4,5,6,7,8,9,10,11,12,13,14,15,16,17,18", "20 DATA a,b,c,d,e,f,g,h,i,j,k,l", "30 FOR I=1 TO 18:READ V:T=T+V:NEXT I",
                     "40 FOR I=1 TO 12:READ W$:U$=U$+W$:NEXT I", "50 PRINT T;U$:RESTORE:READ V:PRINT V:READ V,V,V,V,V,V,V,V,V,V,V,V,V,V,V,V,V,W$:PRINT V;W$" >>),
    K("sc_nest",  << "10 FOR A=1 TO 2:FOR B=1 TO 2:FOR C=1 TO 2:FOR D=1 TO 2:FOR E=1 TO 2:N=N+1:NEXT E:NEXT D:NEXT C:NEXT B:NEXT A:PRINT N",
                     "20 D=0:GOSUB 100:PRINT D", "30 END", "100 D=D+1:IF D<12 THEN GOSUB 100", "110 RETURN" >>),
    K("sc_arr",   << "10 DIM A(50),B(9,9),C$(20):A(49)=7:A(50)=8:B(9,9)=3:B(8,9)=4:C$(20)=\"z\"", "20 PRINT A(49)+A(50);B(9,9)*B(8,9);C$(20);A(0);B(0,9)",
                     "30 FOR I=0 TO 50:A(I)=I*2:NEXT I:PRINT A(25);A(50)", "40 PRINT A(51)" >>),
    K("sc_nums",  << "10 PRINT 12345;99999;65536;1000000;123456789;.001;.125;1024*1024;32768+32768;100000-1", "20 PRINT 17*19;255/5;1000/8;2^20;7^3;INT(1234.5);ABS(-4096)",
                     "30 IF 1000>999 AND 65536>=65536 THEN PRINT \"big\"", "40 GOTO 65000", "65000 PRINT \"far\"" >>),
    K("sc_lines", << "10 X=1", "20 X=X+1", "30 X=X+1", "40 X=X+1", "50 X=X+1", "60 X=X+1", "70 X=X+1", "80 X=X+1", "90 X=X+1", "100 X=X+1", "110 X=X+1", "120 X=X+1",
                     "130 X=X+1", "140 X=X+1", "150 X=X+1", "160 X=X+1", "170 X=X+1", "180 X=X+1", "190 X=X+1", "200 IF X<20 THEN PRINT \"no\"", "210 PRINT X:GOTO 230", "220 PRINT \"skipped\"", "230 PRINT \"end\"" >>),
    K("sc_print", << "10 PRINT 1;2;3;4;5;6;7;8;9;10;11;12", "20 PRINT 1,2,3,4,5,6,7,8", "30 PRINT \"ABCDEFGHIJKLMNOPQRSTUVWXYZ0123456789\";\"abcdefghij\",\"k\"",
                     "40 A$=\"0123456789\":B$=A$+A$+A$+A$:PRINT B$;B$" >>),
    K("sc_fn",    << "10 DEF F(X)=X*2:DEF G(X)=F(X)+F(X+1):DEF H(X)=G(X)+G(X+1)+F(X):DEF J(X,Y,Z)=H(X)+H(Y)+H(Z)", "20 PRINT F(21);G(10);H(5);J(1,2,3)", "30 X=99:PRINT J(X,X,X);X" >>)
}

\* Kernels that drive the caps of C16: frames by GOSUB and by function recursion, 33 FOR
\* variables, a FOR re-entered by GOTO 40 times, DIM at and beyond 10000 cells, implicit
\* arrays of 1..5 dimensions, and every write path offered the wrong kind.
ForLine(i) == NatDigits(i) \o B(" FOR V") \o NatDigits(i) \o B("=1 TO 1")
CapKernels == {
    KernelByName("recurse"),
    K("fnrecurse", << "10 DEF F(X)=F(X+1)", "20 PRINT F(1)" >>),
    [name |-> "forcap", lines |-> [i \in 1..34 |-> ForLine(i)]],
    K("forgoto",  << "10 FOR I=1 TO 3", "20 K=K+1:IF K<40 THEN GOTO 10", "30 PRINT K" >>),
    K("dimcap",   << "10 DIM A(9999):A(9999)=1:DIM B(99,99):DIM C(100,100)" >>),
    K("dimcap2",  << "10 DIM D(10000)" >>),
    K("implicit", << "10 A(1)=1:B(1,1)=1:C(1,1,1)=1:PRINT A(1)+B(1,1)+C(1,1,1):D(1,1,1,1)=1" >>),
    K("implicit5", << "10 PRINT E(1,1,1,1,1)" >>),
    K("kinds",    << "10 A=1:A$=\"s\":B(1)=2:B$(1)=\"t\":DATA 5,x", "20 READ C,C$:DEF G(N$)=1:PRINT G(\"a\")",
                     "30 FOR I$=1 TO 2" >>),
    K("kinds2",   << "10 A$=1" >>), K("kinds3", << "10 A=\"s\"" >>), K("kinds4", << "10 B(1)=\"s\"" >>),
    K("kinds5",   << "10 DEF G(N$)=1:PRINT G(1)" >>), K("kinds6", << "10 DATA x", "20 READ C" >>)
}

=============================================================================
