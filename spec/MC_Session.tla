----------------------------- MODULE MC_Session -----------------------------
(***************************************************************************)
(* The host protocol as a TLA+ state machine over a bounded alphabet of    *)
(* calls: every legal call sequence up to MaxDepth.  Instances (MC_C01,    *)
(* MC_C04, ...) supply the alphabet and choose the invariants.             *)
(*                                                                         *)
(* One action per host call (Submit, Continue, Provide, Break, Replace,    *)
(* Randomize), each wrapping the same Step function.  `hist` is a history  *)
(* variable (the calls so far; hidden from the fingerprint by the VIEW, so *)
(* it costs no states): it makes every transition a replayable test -- the *)
(* row printed for a transition carries the BFS path to its source state,  *)
(* the call, and the model's predicted result, outputs and state.          *)
(***************************************************************************)
EXTENDS Conform, Json

CONSTANTS Lines,        \* texts the host may submit
          Replies,      \* texts the host may answer INPUT with
          Seeds,        \* seeds (digit strings) the host may randomize with
          MaxCost,      \* bound on the summed Cost of the calls of a behaviour
          Cost(_),      \* what a call costs (1 for every call = a depth bound; 0 for calls explored freely)
          StartStates,  \* interpreter records a behaviour may start from
          EmitRows,
          TraceFlag, WarnFlag,
          StepOp(_, _)  \* always instantiated with Step (cfg: StepOp <- Step).  Going through a
                        \* constant operator keeps TLC's start-up level analysis, which re-traverses the
                        \* whole evaluator for every syntactic reference to Step, from taking minutes.

VARIABLES it, hist, last, used, start
vars == <<it, hist, last, used, start>>
\* `used` (the budget spent) is part of the view, so the bound is exhaustive under any
\* worker schedule; `hist` is not: any path to a state is a valid witness of it.
StateView == <<it, last, used>>          \* (all of `last`: invariants read its location too)

StartLines == UNION {{s.lines[i] : i \in 1..Len(s.lines)} : s \in StartStates}
LexTable == [t \in Lines \cup StartLines \cup {B("RUN"), B("CONT")} |->
                LET pl == ParseLineNumber(t) IN Tokenize(t, IF pl.some THEN pl.end ELSE 0)]
MCTokenizeLine(text, skip) == LexTable[text]

\* the keys of a set in ascending numeric order (independent of the incremental InsertKey)
RECURSIVE SortKeys(_)
SortKeys(S) == IF S = {} THEN <<>>
               ELSE LET m == CHOOSE k \in S : \A j \in S : KeyLeq(k, j) IN <<m>> \o SortKeys(S \ {m})

UnitCost(c) == 1
EmptyStart == {[name |-> "empty", lines |-> <<>>]}

Start == [Fresh EXCEPT !.trace = TraceFlag, !.warn = WarnFlag]

Row(c, r) == [start |-> start, path |-> Append(hist, c), trace |-> TraceFlag, warn |-> WarnFlag,
              pred |-> [res |-> r.res, out |-> r.out, snap |-> SnapOf(r.I),
                        caret |-> IF r.res.ok \/ c.k \notin {"submit", "continue"} \/ (c.k = "continue" /\ ~r.res.hl) THEN [ok |-> FALSE, lines |-> <<>>]
                                  ELSE CaretLines(r.I, r.res, c.text)]]

Host(c) ==
    /\ used + Cost(c) <= MaxCost
    /\ Legal(it, c)
    /\ LET r == StepOp(it, c)
       IN  /\ ~Unknown(r)
           /\ it' = r.I
           /\ last' = r.res
           /\ hist' = Append(hist, c)
           /\ used' = used + Cost(c)
           /\ UNCHANGED start
           /\ (EmitRows => PrintT(<<"ROW", ToJson(Row(c, r))>>))

Submit == \E t \in Lines : Host(CSubmit(t))
Continue == Host(CContinue)
Provide == \E t \in Replies : Host(CProvide(t))
Break == Host(CBreak)
Replace == Host(CReplace)
Randomize == \E s \in Seeds : Host(CRandomize(s))

\* StartStates is a set of [name, lines]: the interpreter starts with those lines entered
\* (flags as configured); the replayer enters the same lines before replaying a path.
RECURSIVE Load(_, _)
Load(I, lines) == IF lines = <<>> THEN I ELSE Load(StepOp(I, CSubmit(lines[1])).I, Tail(lines))
Init == /\ \E s \in StartStates : start = s /\ it = Load(Start, s.lines)
        /\ hist = <<>> /\ last = ResOk /\ used = 0
Next == Submit \/ Continue \/ Provide \/ Break \/ Replace \/ Randomize

(***************************************************************************)
(* C01: no call can wedge the interpreter.  Totality is implicit: Step     *)
(* evaluates without a TLC error for every legal call in every reachable   *)
(* state.  Every failure is an error value after which the interpreter is  *)
(* idle; every stored location names an existing line (the invariant       *)
(* behind "no dangling reference into the program").                       *)
(***************************************************************************)
ErrIdle == ~last.ok => it.mode = "idle"
LineExists(line) == line = IMM \/ line \in DOMAIN it.prog
RefIntegrity ==
    /\ LineExists(it.loc.line)
    /\ (it.bp.some => it.bp.line \in DOMAIN it.prog)
    /\ \A i \in 1..Len(it.stack) : LineExists(it.stack[i].ret.line)
    /\ \A i \in 1..Len(it.loops) : LineExists(it.loops[i].loc.line)
    /\ \A f \in DOMAIN it.fns : it.fns[f].line \in DOMAIN it.prog
    /\ (it.data.some => \A i \in 1..Len(it.data.chunks) : it.data.chunks[i].line \in DOMAIN it.prog)
    /\ it.keys = SortKeys(DOMAIN it.prog)
ErrorRenderable == \* the caret rendering of an error is defined
    (~last.ok /\ last.hl) => LineExists(last.line)
ModeTyped == it.mode \in {"idle", "running", "awaiting", "new"}
RunningCanBreak == it.mode \in {"running", "awaiting"} => Legal(it, CBreak)

(***************************************************************************)
(* C16: caps and name-suffix typing.                                       *)
(***************************************************************************)
RECURSIVE Product(_)
Product(s) == IF s = <<>> THEN 1 ELSE s[1] * Product(Tail(s))
Caps ==
    /\ Len(it.stack) <= STACK_LIMIT
    /\ Len(it.loops) <= STACK_LIMIT
    /\ \A i, j \in 1..Len(it.loops) : i # j => it.loops[i].sym # it.loops[j].sym
    /\ \A a \in DOMAIN it.arrays :
          /\ Product(it.arrays[a].dims) <= MAX_CELLS
          /\ \A c \in DOMAIN it.arrays[a].cells : c < Product(it.arrays[a].dims) /\ KindMatches(a, it.arrays[a].cells[c])
    /\ \A v \in DOMAIN it.vars : KindMatches(v, it.vars[v])
    /\ \A i \in 1..Len(it.stack) : \A v \in DOMAIN it.stack[i].binds : KindMatches(v, it.stack[i].binds[v])

(***************************************************************************)
(* One-step lemmas: relational properties evaluated at every reachable     *)
(* state.  Core(I) is everything a later call can observe.                 *)
(***************************************************************************)
\* (The immediate-line buffer is dead while the cursor is on a numbered line: every way
\* back to the immediate line overwrites it.)
Core(I) == [I EXCEPT !.out = <<>>, !.imm = IF I.loc.line = IMM THEN @ ELSE <<>>]
DropKind(outs, kinds) == SelectSeq(outs, LAMBDA o : o.t \notin kinds)

\* C07: Break then CONT is Continue, apart from the BREAK notice -- wherever a
\* program (numbered lines) is executing.  An immediate line cannot be continued.
\* (States with a stale breakpoint -- reachable only by typing NEXT at a breakpoint,
\* which re-enters the program without clearing it -- are excluded: there a host break
\* replaces the stale breakpoint, which only a CONT after the program's end could tell.)
BreakContTransparent ==
    (it.mode = "running" /\ it.loc.line # IMM /\ ~it.bp.some) =>
        LET b == StepOp(it, CBreak)
            a == StepOp(b.I, CSubmit(B("CONT")))
            d == StepOp(it, CContinue)
        IN  Unknown(a) \/ Unknown(d) \/
            (/\ Core(a.I) = Core(d.I) /\ a.res = d.res
             /\ b.out = <<OutBreak(it.loc.line)>> /\ a.out = d.out)

\* C10: RUN behaves as in a fresh interpreter holding the same program, seed and flags.
FreshWith(I) == [Fresh EXCEPT !.prog = I.prog, !.keys = I.keys, !.seed = I.seed, !.trace = I.trace, !.warn = I.warn]
RunIsFresh ==
    it.mode = "idle" =>
        LET a == StepOp(it, CSubmit(B("RUN")))
            b == StepOp(FreshWith(it), CSubmit(B("RUN")))
        IN  Unknown(a) \/ Unknown(b) \/ (Core(a.I) = Core(b.I) /\ a.out = b.out /\ a.res = b.res)

\* C17: the flags change nothing except the presence of trace and warning records.
StripFlags(I) == [I EXCEPT !.trace = FALSE, !.warn = FALSE, !.out = <<>>]
FlagsDoNotInterfere ==
    \A c \in {CContinue, CBreak} \cup {CSubmit(t) : t \in Lines} \cup {CProvide(t) : t \in Replies} :
        (Legal(it, c) /\ ~(c.k = "submit" /\ FirstWord(c.text) \in {B("TRACE"), B("NOTRACE")})) =>
            LET on == StepOp(it, c)
                off == StepOp([it EXCEPT !.trace = FALSE, !.warn = FALSE], c)
            IN  Unknown(on) \/ Unknown(off) \/
                (/\ StripFlags(on.I) = StripFlags(off.I) /\ on.res = off.res
                 /\ DropKind(on.out, {"trace", "warning"}) = DropKind(off.out, {"trace", "warning"}))

\* C11: a successful edit of a numbered line invalidates every runtime reference
\* into the program and keeps variables and arrays; a rejected edit changes nothing.
IsEdit(c) == c.k = "submit" /\ ParseLineNumber(c.text).some /\ FirstWord(c.text) \notin Commands
EditInvalidates ==
    \A t \in Lines :
        (it.mode = "idle" /\ IsEdit(CSubmit(t))) =>
            LET r == StepOp(it, CSubmit(t))
            IN  IF r.res.ok
                THEN /\ ~r.I.bp.some /\ r.I.stack = <<>> /\ r.I.loops = <<>> /\ r.I.fns = <<>>
                     /\ ~r.I.data.some /\ r.I.loc = ImmLoc /\ r.I.mode = "idle"
                     /\ r.I.vars = it.vars /\ r.I.arrays = it.arrays
                ELSE /\ r.I.prog = it.prog /\ r.I.bp = it.bp /\ r.I.loops = it.loops /\ r.I.fns = it.fns
                     /\ r.I.data = it.data /\ r.I.vars = it.vars /\ r.I.arrays = it.arrays
                     /\ (it.bp.some => r.I.stack = it.stack)
=============================================================================
