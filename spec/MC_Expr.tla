------------------------------- MODULE MC_Expr -------------------------------
(***************************************************************************)
(* Bounded instance for C02: every expression tree of the listed shapes    *)
(* over the leaf and operator alphabets of ExprProps.  TLC checks on the   *)
(* model that the token-cursor evaluator agrees with the fold of the tree  *)
(* for both renderings, and prints one table row per tree.                 *)
(***************************************************************************)
EXTENDS ExprProps

CONSTANT Shapes, EmitRows

(***************************************************************************)
(* Enumeration.                                                            *)
(***************************************************************************)
Bin(op, l, r) == <<"bin", op, l, r>>
TreesOf(shape) ==
    CASE shape = "leaf" -> Leaves
      [] shape = "un" -> {<<"un", u, a>> : u \in UnOps, a \in Leaves} \cup {<<"fn", f, a>> : f \in Fns, a \in Leaves}
      [] shape = "bin" -> {Bin(o, a, b) : o \in BinOps, a \in Leaves, b \in Leaves}
      [] shape = "unbin" -> {<<"un", u, Bin(o, a, b)>> : u \in UnOps, o \in BinOps, a \in FewLeaves, b \in FewLeaves}
                        \cup {Bin(o, <<"un", u, a>>, b) : u \in UnOps, o \in BinOps, a \in FewLeaves, b \in FewLeaves}
                        \cup {Bin(o, a, <<"un", u, b>>) : u \in UnOps, o \in BinOps, a \in FewLeaves, b \in FewLeaves}
                        \cup {<<"un", u, <<"un", w, a>>>> : u \in UnOps, w \in UnOps, a \in FewLeaves}
                        \cup {<<"fn", f, Bin(o, a, b)>> : f \in Fns, o \in BinOps, a \in FewLeaves, b \in FewLeaves}
      [] shape = "left" -> {Bin(o2, Bin(o1, a, b), c) : o1 \in BinOps, o2 \in BinOps, a \in FewLeaves, b \in FewLeaves, c \in FewLeaves}
      [] shape = "right" -> {Bin(o2, a, Bin(o1, b, c)) : o1 \in BinOps, o2 \in BinOps, a \in FewLeaves, b \in FewLeaves, c \in FewLeaves}
      [] shape = "spec" ->       \* NaN and the infinities under every operator, alone and one level down
            {Bin(o, a, b) : o \in BinOps, a \in SpecMix, b \in SpecMix}
            \cup {<<"un", u, a>> : u \in UnOps, a \in SpecLeaves} \cup {<<"fn", f, a>> : f \in Fns, a \in SpecLeaves}
            \cup {Bin(o, <<"un", "minus", a>>, b) : o \in BinOps, a \in SpecMix, b \in SpecMix}
            \cup {Bin(o2, Bin(o1, a, b), c) : o1 \in BinOps, o2 \in BinOps, a \in SpecLeaves \cup {<<"leaf", TkN(NInt(0))>>, <<"leaf", TkN(NInt(2))>>},
                                              b \in SpecLeaves \cup {<<"leaf", TkN(NInt(0))>>, <<"leaf", TkN(NInt(2))>>},
                                              c \in {<<"leaf", TkS("symbol", B("QN"))>>, <<"leaf", TkS("symbol", B("QP"))>>, <<"leaf", TkN(NInt(0))>>, <<"leaf", TkN(NInt(1))>>}}
      [] shape = "three" ->
            LET L3 == {<<"leaf", t>> : t \in {TkN(NInt(2)), TkN(NInt(3)), TkN(NInt(0)), TkS("stringliteral", B("A"))}}
            IN  {Bin(o3, Bin(o2, Bin(o1, a, b), c), d) : o1 \in BinOps, o2 \in BinOps, o3 \in BinOps, a \in L3, b \in L3, c \in L3, d \in {<<"leaf", TkN(NInt(2))>>}}
                \cup {Bin(o3, Bin(o1, a, b), Bin(o2, c, d)) : o1 \in BinOps, o2 \in BinOps, o3 \in BinOps, a \in L3, b \in L3, c \in L3, d \in {<<"leaf", TkN(NInt(2))>>}}
                \cup {Bin(o3, a, Bin(o2, b, Bin(o1, c, d))) : o1 \in BinOps, o2 \in BinOps, o3 \in BinOps, a \in L3, b \in L3, c \in L3, d \in {<<"leaf", TkN(NInt(2))>>}}

VARIABLES tree
vars == <<tree>>
Init == \E s \in Shapes : tree \in TreesOf(s)
Next == UNCHANGED tree

C02 == LET f == Fold(tree)
       IN  /\ Same(EvalTokens(Render(tree, FALSE)), f)
           /\ Same(EvalTokens(Render(tree, TRUE)), f)

Row == LET f == Fold(tree)
           p == Printed(f)
       IN  [min |-> TokensSpelling(Render(tree, FALSE)).s, red |-> TokensSpelling(Render(tree, TRUE)).s,
            e |-> f.e, known |-> p.ok /\ f.e # "unknown", text |-> p.s]
EmitRow == EmitRows => PrintT(<<"ROW", ToJson(Row)>>)
=============================================================================
