------------------------------- MODULE MC_Cli -------------------------------
(***************************************************************************)
(* C15: loading a file equals typing it in, and the CLI options apply in   *)
(* both modes.  Instance: the kernel catalogue (without RND: the CLI seeds *)
(* the generator from the clock) plus files with duplicate and unordered   *)
(* line numbers x the 8 combinations of --warnings / --tracing /           *)
(* --skip-check x three reply scripts.  TLC checks both halves of C15 on   *)
(* the model and prints, per case, the streams the model predicts for file *)
(* mode and for interactive mode; the harness runs the real `abasic`       *)
(* binary both ways and loads the file through the real analyzer.          *)
(***************************************************************************)
EXTENDS Kernels, Cli, Json

CONSTANT EmitCliRows

CliPrograms == {k \in Kernels : k.name \notin {"rnd", "forever"}} \cup      \* (a program that never ends never ends under the CLI either)
    { K("dups", << "10 PRINT 1", "10 PRINT 2", "5 PRINT 0" >>),
      K("unordered", << "30 PRINT X", "10 X=4", "20 GOSUB 100", "25 END", "100 X=X+1:RETURN" >>),
      K("tail", << "10 PRINT \"HI\"", "20 PRINT \"TAIL\";" >>),
      K("quiet_end", << "10 PRINT \"HI\"", "20 X = 1", "30 END" >>),
      \* text that runs to the physical end of the line: an open DATA quote, REM, trailing blanks
      K("eol", << "10 DATA \"FOO\", \"BAR   ", "20 READ A$,B$:PRINT A$;B$;\"|\"   ", "30 REM box [   ", "40 PRINT 1  " >>),
      K("eol2", << "10 REM x  ", "20 DATA a , b  ", "30 READ A$,B$:PRINT B$;A$;\"|\"" >>),
      \* a source line longer than any historical line buffer (255 bytes) loads like any other
      K("longline", << "10 PRINT \"ABCDEFGHIJKLMNOPQRSTUVWXYZ0123456789ABCDEFGHIJKLMNOPQRSTUVWXYZ0123456789ABCDEFGHIJKLMNOPQRSTUVWXYZ0123456789ABCDEFGHIJKLMNOPQRSTUVWXYZ0123456789ABCDEFGHIJKLMNOPQRSTUVWXYZ0123456789ABCDEFGHIJKLMNOPQRSTUVWXYZ0123456789ABCDEFGHIJKLMNOPQRSTUVWXYZ0123456789ABCDEFGHIJKLMNOPQRSTUVWXYZ0123456789\";", "20 PRINT \"!\":REM ABCDEFGHIJKLMNOPQRSTUVWXYZ0123456789ABCDEFGHIJKLMNOPQRSTUVWXYZ0123456789ABCDEFGHIJKLMNOPQRSTUVWXYZ0123456789ABCDEFGHIJKLMNOPQRSTUVWXYZ0123456789ABCDEFGHIJKLMNOPQRSTUVWXYZ0123456789ABCDEFGHIJKLMNOPQRSTUVWXYZ0123456789ABCDEFGHIJKLMNOPQRSTUVWXYZ0123456789ABCDEFGHIJKLMNOPQRSTUVWXYZ0123456789" >>),
      K("partial", << "10 PRINT \"abc\";:PRINT Q", "20 PRINT \"d\";", "30 INPUT A", "40 PRINT \"e\";:PRINT 1/0" >>) }
OptSets == [w : BOOLEAN, t : BOOLEAN, s : BOOLEAN]
\* Replies are bare numbers: what the program does not consume is read by the interactive
\* prompt as a line, and a bare number there is harmless (it deletes a line that does not exist).
ReplyScripts == { <<>>, <<B("5")>>, <<B("5"), B("0"), B("7"), B("12"), B("3"), B("4")>> }

VARIABLES prog, opts, replies
cvars == <<prog, opts, replies>>
CInit == prog \in CliPrograms /\ opts \in OptSets /\ replies \in ReplyScripts
CNext == UNCHANGED cvars

C15 == C15Cli(opts, prog.lines, replies) /\ C15Load(prog.lines)

ErrKinds(err) == [i \in 1..Len(err) |-> [k |-> err[i].k, line |-> err[i].line, err |-> err[i].err]]
Side(S) == [out |-> S.out, err |-> ErrKinds(RuntimeErr(S.err)), exit |-> S.exit, known |-> ~S.unk, prompts |-> S.prompts]
CliRow == LET text == JoinWith(prog.lines, <<LF>>)
              an == Analyze(text)
          IN  [name |-> prog.name, lines |-> prog.lines, w |-> opts.w, t |-> opts.t, s |-> opts.s, replies |-> replies,
               comparable |-> WellFormed(an) /\ (opts.s \/ ~HasErrors(an)),
               static_errors |-> HasErrors(an),
               file |-> Side(FileRun(opts, text, replies)),
               interactive |-> Side(InteractiveRun(opts, prog.lines \o <<B("RUN")>> \o replies))]
EmitCliRow == EmitCliRows => PrintT(<<"ROW", ToJson(CliRow)>>)
=============================================================================
