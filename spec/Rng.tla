-------------------------------- MODULE Rng --------------------------------
(***************************************************************************)
(* The random number generator: a linear congruential generator            *)
(*     seed' = (1664525 * seed + 1013904223) mod 2^33                      *)
(* whose value is seed / 2^33, in [0, 1).                                  *)
(*                                                                         *)
(* Seeds are 64-bit and products reach 2^54; TLC integers are 32-bit.  So  *)
(* naturals are little-endian sequences of base-2^15 limbs (<<>> is 0).    *)
(* Any 64-bit seed is accepted and reduced modulo 2^33 when it is set.     *)
(***************************************************************************)
EXTENDS Num

BASE == 32768

RECURSIVE BNNorm(_)
BNNorm(a) == IF a # <<>> /\ a[Len(a)] = 0 THEN BNNorm(SubSeq(a, 1, Len(a) - 1)) ELSE a

BNFromNat(n) == LET RECURSIVE F(_) F(k) == IF k = 0 THEN <<>> ELSE <<k % BASE>> \o F(k \div BASE) IN F(n)

\* a * m + c for 0 <= m, c < 2^15
RECURSIVE BNMulAddSmallFrom(_, _, _, _)
BNMulAddSmallFrom(a, i, m, carry) ==
    IF i > Len(a) THEN (IF carry = 0 THEN <<>> ELSE <<carry>>)
    ELSE LET t == a[i] * m + carry
         IN  <<t % BASE>> \o BNMulAddSmallFrom(a, i + 1, m, t \div BASE)
BNMulAddSmall(a, m, c) == BNNorm(BNMulAddSmallFrom(a, 1, m, c))

RECURSIVE BNAddFrom(_, _, _, _)
BNAddFrom(a, b, i, carry) ==
    IF i > Len(a) /\ i > Len(b) THEN (IF carry = 0 THEN <<>> ELSE <<carry>>)
    ELSE LET x == IF i <= Len(a) THEN a[i] ELSE 0
             y == IF i <= Len(b) THEN b[i] ELSE 0
             t == x + y + carry
         IN  <<t % BASE>> \o BNAddFrom(a, b, i + 1, t \div BASE)
BNAdd(a, b) == BNNorm(BNAddFrom(a, b, 1, 0))

BNShiftLimbs(a, k) == IF a = <<>> THEN <<>> ELSE [i \in 1..k |-> 0] \o a

RECURSIVE BNMulFrom(_, _, _)
BNMulFrom(a, b, j) == \* sum over limbs j.. of b
    IF j > Len(b) THEN <<>>
    ELSE BNAdd(BNShiftLimbs(BNMulAddSmall(a, b[j], 0), j - 1), BNMulFrom(a, b, j + 1))
BNMul(a, b) == BNMulFrom(a, b, 1)

\* a mod 2^33 : limbs 1, 2 (30 bits) and the low 3 bits of limb 3
BNMod33(a) == BNNorm(<< IF Len(a) >= 1 THEN a[1] ELSE 0,
                        IF Len(a) >= 2 THEN a[2] ELSE 0,
                        IF Len(a) >= 3 THEN a[3] % 8 ELSE 0 >>)

RECURSIVE BNFromDigitsAcc(_, _, _)
BNFromDigitsAcc(ds, i, acc) ==
    IF i > Len(ds) THEN acc ELSE BNFromDigitsAcc(ds, i + 1, BNMulAddSmall(acc, 10, ds[i] - 48))
BNFromDigits(ds) == BNFromDigitsAcc(ds, 1, <<>>)

\* short division by 10: [q, r]
RECURSIVE BNDiv10From(_, _, _)
BNDiv10From(a, i, rem) == \* from the most significant limb i down to 1; returns <<limbs msb-first..., rem>>
    IF i = 0 THEN <<rem>>
    ELSE LET t == rem * BASE + a[i] IN <<t \div 10>> \o BNDiv10From(a, i - 1, t % 10)
BNDiv10(a) ==
    LET r == BNDiv10From(a, Len(a), 0)
        n == Len(a)
    IN  [q |-> BNNorm([i \in 1..n |-> r[n - i + 1]]), r |-> r[n + 1]]

RECURSIVE BNToDigits(_)
BNToDigits(a) == IF a = <<>> THEN <<>> ELSE LET d == BNDiv10(a) IN Append(BNToDigits(d.q), 48 + d.r)
BNDigits(a) == IF a = <<>> THEN <<48>> ELSE BNToDigits(a)

LCG_A == BNFromNat(1664525)
LCG_C == BNFromNat(1013904223)

\* Setting the seed: any 64-bit value, reduced into the generator's state space.
SeedOf(big) == BNMod33(big)

LcgNext(seed) == BNMod33(BNAdd(BNMul(seed, LCG_A), LCG_C))

\* seed / 2^33 as a model number: exact when it fits the small dyadic domain.
SeedValue(seed) ==
    IF seed = <<>> THEN NZero
    ELSE IF seed[1] # 0 THEN Opaque
    ELSE LET hi == (IF Len(seed) >= 2 THEN seed[2] ELSE 0) + (IF Len(seed) >= 3 THEN seed[3] * BASE ELSE 0)
         IN  Mk(hi, 18)                       \* seed = hi * 2^15, value = hi / 2^18

\* State-space invariant of the generator (C18: the value is in [0, 1)).
SeedInRange(seed) == Len(seed) <= 3 /\ (Len(seed) = 3 => seed[3] < 8) /\ \A i \in 1..Len(seed) : seed[i] \in 0..(BASE - 1)

(***************************************************************************)
(* RND(x): [seed, v, e] -- the state afterwards, the value, "" or the error*)
(* kind, or e = "unknown" when the sign of x is not known to the model.    *)
(***************************************************************************)
Rnd(seed, x) ==
    IF x.t = "o" THEN [seed |-> seed, v |-> Opaque, e |-> "unknown"]
    ELSE IF x.t = "ninf" \/ (x.t = "n" /\ x.n < 0) THEN [seed |-> seed, v |-> NZero, e |-> "unimplemented"]
    ELSE IF IsZero(x) THEN [seed |-> seed, v |-> SeedValue(seed), e |-> ""]
    ELSE LET s2 == LcgNext(seed) IN [seed |-> s2, v |-> SeedValue(s2), e |-> ""]

(***************************************************************************)
(* Named arguments shared by MC_Rng, Trace_Rng and the harness.  Only the  *)
(* sign of the argument matters -- as a real number, not after any         *)
(* conversion: 0.5 and 2^-20 are positive, -0.5 is negative, -0 is zero,   *)
(* NaN is neither negative nor zero and so advances like a positive one.   *)
(***************************************************************************)
ArgNames == {"pos", "zero", "neg", "half", "neghalf", "negzero", "tiny", "big", "threehalves", "nan", "pinf", "ninf"}
ArgOf(sg) == CASE sg = "pos" -> NOne [] sg = "zero" -> NZero [] sg = "neg" -> NNeg(NOne)
               [] sg = "half" -> Mk(1, 1) [] sg = "neghalf" -> Mk(0 - 1, 1) [] sg = "negzero" -> NegZero
               [] sg = "tiny" -> Mk(1, 20) [] sg = "big" -> NInt(1000000) [] sg = "threehalves" -> Mk(3, 1)
               [] sg = "nan" -> NaN [] sg = "pinf" -> PInf [] sg = "ninf" -> NInf
\* the documented behaviour, stated without looking at the value's representation
ArgAdvances(sg) == sg \in {"pos", "half", "tiny", "big", "threehalves", "nan", "pinf"}
ArgRepeats(sg) == sg \in {"zero", "negzero"}
ArgFails(sg) == sg \in {"neg", "neghalf", "ninf"}
=============================================================================
