INIT Init
NEXT Next
CONSTANT Lines <- LinesDef
CONSTANT Replies = {}
CONSTANT Seeds = {}
CONSTANT MaxCost = 4
CONSTANT Cost <- UnitCost
CONSTANT StartStates <- EmptyStart
CONSTANT EmitRows = TRUE
CONSTANT TraceFlag = FALSE
CONSTANT WarnFlag = FALSE
CONSTANT TokenizeLine <- MCTokenizeLine
CONSTANT StepOp <- Step
VIEW StateView
INVARIANT LastWriterWins
INVARIANT RefIntegrity
INVARIANT ErrIdle
INVARIANT Caps
CHECK_DEADLOCK FALSE
