-------------------------------- MODULE Cli --------------------------------
(***************************************************************************)
(* The command-line front end (StdioInterpreter): option handling, file    *)
(* mode vs interactive mode, the line-buffering printer's interleaving of  *)
(* stdout and stderr, and exit codes -- with stdin and stdout not being    *)
(* terminals (pipes), which is how the check drives the real binary.       *)
(*                                                                         *)
(* Observable of one run:                                                  *)
(*   out      bytes written to stdout by the program (banner excluded)     *)
(*   err      records written to stderr, in order                          *)
(*   prompts  the text handed to the line reader as a prompt at each INPUT *)
(*            (pending partial output + "? "; not echoed without a tty)    *)
(*   exit     the exit code                                                *)
(***************************************************************************)
EXTENDS Analyzer

MAX_BUFFER == 255

\* stderr records: [k, line, err]  k in {"warning","break","extra","reenter","error","static_warning","static_error","static_note"}
ErrRec(k, line, e) == [k |-> k, line |-> line, err |-> e]

(***************************************************************************)
(* The printer.                                                            *)
(***************************************************************************)
RECURSIVE PrintBytes(_, _, _)
PrintBytes(S, bs, i) == \* print(): line-buffered, flushed at LF or when the buffer reaches MAX_BUFFER bytes
    IF i > Len(bs) THEN S
    ELSE LET buf2 == Append(S.buf, bs[i])
         IN  IF bs[i] = LF \/ Len(buf2) = MAX_BUFFER
             THEN PrintBytes([S EXCEPT !.out = @ \o buf2, !.buf = <<>>], bs, i + 1)
             ELSE PrintBytes([S EXCEPT !.buf = buf2], bs, i + 1)
CliPrint(S, bs) == PrintBytes(S, bs, 1)

\* print_buffered_output(): a pending partial line is completed with a newline
FlushLine(S) == IF S.buf = <<>> THEN S ELSE [S EXCEPT !.out = @ \o S.buf \o <<LF>>, !.buf = <<>>]
\* eprintln(): pending stdout first, then the stderr record
EPrint(S, rec) == [FlushLine(S) EXCEPT !.err = Append(@, rec)]

\* show_interpreter_output
RECURSIVE ShowOutputs(_, _, _)
ShowOutputs(S, outs, i) ==
    IF i > Len(outs) THEN S
    ELSE LET o == outs[i]
             S2 == CASE o.t = "print" -> CliPrint(S, o.text)
                     [] o.t = "trace" -> CliPrint(S, <<35>> \o o.line \o <<SP>>)
                     [] OTHER -> EPrint(S, ErrRec(o.t, o.line, ""))
         IN  ShowOutputs([S2 EXCEPT !.unk = @ \/ o.unk], outs, i + 1)

(***************************************************************************)
(* The main loop.  S == [I, opts, interactive, pending, stdin, buf, out,    *)
(* err, prompts, exit, done, unk]                                          *)
(***************************************************************************)
Configure(I, opts) == [I EXCEPT !.warn = opts.w, !.trace = opts.t]       \* (the seed comes from the clock: programs with RND are not compared)

NextInput(S) == IF S.stdin = <<>> THEN [some |-> FALSE, line |-> <<>>, S |-> S]
                ELSE [some |-> TRUE, line |-> S.stdin[1], S |-> [S EXCEPT !.stdin = Tail(@)]]

AfterCall(S, r) == \* outputs are shown whatever the result; an error is fatal when stdin is not a terminal
    LET S1 == ShowOutputs([S EXCEPT !.I = r.I], r.out, 1)
    IN  IF Unknown(r) THEN [S1 EXCEPT !.unk = TRUE, !.done = TRUE]
        ELSE IF r.res.ok THEN S1
        ELSE [EPrint(S1, ErrRec("error", IF r.res.hl THEN r.res.line ELSE IMM, r.res.kind)) EXCEPT !.exit = 1, !.done = TRUE]

RECURSIVE CliLoop(_, _)
CliLoop(S, fuel) ==
    IF S.done THEN S
    ELSE IF fuel = 0 THEN [S EXCEPT !.unk = TRUE, !.done = TRUE]
    ELSE CASE S.I.mode = "idle" ->
                LET S1 == FlushLine(S)
                IN  IF S1.pending.some
                    THEN CliLoop(AfterCall([S1 EXCEPT !.pending = [some |-> FALSE, line |-> <<>>]], Step(S1.I, CSubmit(S1.pending.line))), fuel - 1)
                    ELSE IF ~S1.interactive THEN [S1 EXCEPT !.done = TRUE]
                    ELSE LET n == NextInput(S1)
                         IN  IF ~n.some THEN [S1 EXCEPT !.done = TRUE]                     \* EOF
                             ELSE CliLoop(AfterCall(n.S, Step(n.S.I, CSubmit(n.line))), fuel - 1)
           [] S.I.mode = "running" -> CliLoop(AfterCall(S, Step(S.I, CContinue)), fuel - 1)
           [] S.I.mode = "awaiting" ->
                LET S1 == [S EXCEPT !.prompts = Append(@, S.buf \o B("? ")), !.buf = <<>>]     \* pop_buffered_output
                    n == NextInput(S1)
                IN  IF ~n.some THEN [S1 EXCEPT !.done = TRUE]                               \* EOF: return Ok
                    ELSE CliLoop(AfterCall(n.S, Step(n.S.I, CProvide(n.line))), fuel - 1)
           [] S.I.mode = "new" -> CliLoop([S EXCEPT !.I = Configure(Fresh, S.opts)], fuel - 1)

Start0(I, opts, interactive, pending, stdin) ==
    [I |-> I, opts |-> opts, interactive |-> interactive, pending |-> pending, stdin |-> stdin,
     buf |-> <<>>, out |-> <<>>, err |-> <<>>, prompts |-> <<>>, exit |-> 0, done |-> FALSE, unk |-> FALSE]

\* `abasic [opts]` with the given lines on stdin
InteractiveRun(opts, stdin) == CliLoop(Start0(Configure(Fresh, opts), opts, TRUE, [some |-> FALSE, line |-> <<>>], stdin), 2000)

\* into_interpreter(): the analyzer's program in a fresh interpreter
Loaded(an) == [Fresh EXCEPT !.prog = an.A.prog, !.keys = an.A.keys]

\* `abasic [opts] FILE` with the given lines on stdin (replies)
RECURSIVE StaticMsgs(_, _, _)
StaticMsgs(S, msgs, i) ==
    IF i > Len(msgs) THEN S
    ELSE LET m == msgs[i]
         IN  StaticMsgs(EPrint(S, ErrRec(IF m.k = "error" THEN "static_error" ELSE "static_warning", IMM, m.err)), msgs, i + 1)

FileRun(opts, text, stdin) ==
    LET an == Analyze(text)
        I0 == Configure(Loaded(an), opts)
        S0 == Start0(I0, opts, FALSE, [some |-> TRUE, line |-> B("RUN")], stdin)
        symseq == LET RECURSIVE F(_) F(T) == IF T = {} THEN <<>> ELSE LET x == CHOOSE y \in T : TRUE IN <<x>> \o F(T \ {x}) IN F(an.symmsgs)
        S1 == IF opts.s THEN S0 ELSE StaticMsgs(S0, an.msgs \o symseq, 1)
    IN  IF ~opts.s /\ HasErrors(an) THEN [S1 EXCEPT !.exit = 1, !.done = TRUE]
        ELSE CliLoop(S1, 2000)

RuntimeErr(err) == SelectSeq(err, LAMBDA r : r.k \notin {"static_warning", "static_error", "static_note"})

(***************************************************************************)
(* C15, CLI half: for a well-formed file (all lines numbered, non-empty,   *)
(* tokenizable) that the static check accepts -- or with the check skipped *)
(* -- file mode and interactive mode show the same program output, the     *)
(* same runtime warnings / trace records / errors, and the same exit code. *)
(***************************************************************************)
WellFormed(an) == \A i \in 1..Len(an.infos) : an.infos[i].stored
C15Cli(opts, lines, replies) ==
    LET text == JoinWith(lines, <<LF>>)
        an == Analyze(text)
        f == FileRun(opts, text, replies)
        t == InteractiveRun(opts, lines \o <<B("RUN")>> \o replies)
    IN  (WellFormed(an) /\ (opts.s \/ ~HasErrors(an)) /\ ~f.unk /\ ~t.unk) =>
            (f.out = t.out /\ RuntimeErr(f.err) = t.err /\ f.exit = t.exit /\ f.prompts = t.prompts)

\* C15, core half: loading through the analyzer = typing the lines in
RECURSIVE TypeIn(_, _)
TypeIn(I, lines) == IF lines = <<>> THEN I ELSE TypeIn(Step(I, CSubmit(lines[1])).I, Tail(lines))
C15Load(lines) ==
    LET an == Analyze(JoinWith(lines, <<LF>>))
        typed == TypeIn(Fresh, lines)
    IN  WellFormed(an) => (Loaded(an).prog = typed.prog /\ Loaded(an).keys = typed.keys)
=============================================================================
