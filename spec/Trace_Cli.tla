------------------------------- MODULE Trace_Cli -------------------------------
(***************************************************************************)
(* Implementation -> specification for C15.  One event per generated       *)
(* program run through the real `abasic` binary in both modes:             *)
(*    lines, w, t, s, replies        the case                              *)
(*    file, interactive              observed [out, err, exit] per mode    *)
(* TLC computes the streams the Cli model predicts and judges both the     *)
(* implementation-vs-itself property and each mode against the model.      *)
(***************************************************************************)
EXTENDS Cli, Json, IOUtils, TLC

Rec == ndJsonDeserialize(IOEnv.TRACE)
VARIABLES l
vars == <<l>>

ErrSame(m, r) == Len(m) = Len(r) /\ \A i \in 1..Len(m) : m[i].k = r[i].k /\ m[i].line = r[i].line /\ (m[i].k = "error" => m[i].err = r[i].err)
SideSame(S, o) == S.unk \/ (S.out = o.out /\ ErrSame(RuntimeErr(S.err), o.err) /\ S.exit = o.exit)

Judge(ev) ==
    LET opts == [w |-> ev.w, t |-> ev.t, s |-> ev.s]
        text == JoinWith(ev.lines, <<LF>>)
        an == Analyze(text)
        f == FileRun(opts, text, ev.replies)
        t == InteractiveRun(opts, ev.lines \o <<B("RUN")>> \o ev.replies)
        comparable == WellFormed(an) /\ (opts.s \/ ~HasErrors(an))
        reasons == <<
            IF ~C15Cli(opts, ev.lines, ev.replies) \/ ~C15Load(ev.lines) THEN "MODEL:C15" ELSE "",
            IF comparable /\ ~(ev.file.out = ev.interactive.out /\ ev.file.err = ev.interactive.err /\ ev.file.exit = ev.interactive.exit) THEN "C15:modes_differ" ELSE "",
            IF ~SideSame(f, ev.file) THEN "C15:file_mode" ELSE "",
            IF ~SideSame(t, ev.interactive) THEN "C15:interactive_mode" ELSE "" >>
    IN  SelectSeq(reasons, LAMBDA x : x # "")

Init == l = 0
Next == /\ l < Len(Rec)
        /\ l' = l + 1
        /\ LET why == Judge(Rec[l + 1])
           IN  why # <<>> => PrintT(<<"VERDICT", ToJson([i |-> l + 1, why |-> why])>>)
Spec == Init /\ [][Next]_vars
Consumed == IF TLCGet("stats").diameter - 1 = Len(Rec) THEN TRUE
            ELSE PrintT(<<"UNCONSUMED", TLCGet("stats").diameter - 1, Len(Rec)>>) /\ FALSE
=============================================================================
