------------------------------- MODULE MC_C04 -------------------------------
(***************************************************************************)
(* C04: the program store is a last-writer-wins map, listed and run in     *)
(* line order.  Alphabet: line numbers 0, 00, 7, 007, 10 and the u64       *)
(* extremes (…614, …615, and …616 which is not a line number) x bodies     *)
(* {PRINT k, empty, blanks only, untokenizable, REM}; plus LIST and RUN.  `shadow` is   *)
(* the map the property statement describes, maintained independently of   *)
(* Step from the history of submitted lines.                               *)
(***************************************************************************)
EXTENDS MC_Session

\* (the zero-padded spellings are 21 digits long: longer than any u64 numeral, and still the lines 0 and 7)
Numbers == { B("0"), B("000000000000000000000"), B("7"), B("000000000000000000007"), B("10"), B("18446744073709551614"),
             B("18446744073709551615"), B("18446744073709551616") }
Bodies == { B(" PRINT 1"), B(" PRINT 2"), B(""), B(" %"), B(" REM x"), B("  "), <<9>>, B(" LIST"), B(" new") }     \* a number followed only by blanks deletes, too; a command word after a number is just a stored line
EditLines == {n \o b : n \in Numbers, b \in Bodies}
LinesDef == EditLines \cup {B("LIST"), B("RUN")}

\* The map of the property statement, computed from the history alone:
\* "the last successfully tokenized non-empty text entered for that number".
RECURSIVE ShadowOf(_)
ShadowOf(h) ==
    IF h = <<>> THEN <<>>
    ELSE LET prev == ShadowOf(SubSeq(h, 1, Len(h) - 1))
             c == h[Len(h)]
         IN  IF c.k # "submit" \/ c.text \notin EditLines THEN prev
             ELSE LET pl == ParseLineNumber(c.text)
                      lx == LexTable[c.text]
                  IN  IF ~pl.some \/ lx.err # "" THEN prev
                      ELSE IF lx.toks = <<>> THEN Drop(prev, pl.key)
                      ELSE Put(prev, pl.key, lx.toks)

\* the shadow is computed from the (hidden) history, so it is part of the view: two paths to the
\* same interpreter state with different shadows are two states, and both are checked
C04View == <<it, last, used, ShadowOf(hist)>>
LastWriterWins == it.prog = ShadowOf(hist) /\ it.keys = SortKeys(DOMAIN it.prog)
=============================================================================
