------------------------------ MODULE Trace_Lex ------------------------------
(***************************************************************************)
(* Implementation -> specification for the lexer.  Each line of the trace  *)
(* file is one event recorded from the real tokenizer on a randomly        *)
(* generated line:                                                         *)
(*   line          bytes                                                   *)
(*   toks, ranges, err, ea, eb     what verif::tokenize returned           *)
(*   pert          perturbations tried: [kind, p, same] where `same` says  *)
(*                 whether the real token sequence was unchanged           *)
(*   listed, list  whether the line was stored and LISTed, and the listing *)
(*   reload_same   the listing reloaded to the same tokens and listing     *)
(* The trace spec consumes one event per step and judges it with the       *)
(* Lexer model and the LexProps properties; every failed judgement is      *)
(* printed as a VERDICT row.  Acceptance is by postcondition.              *)
(***************************************************************************)
EXTENDS LexProps, Json, IOUtils, TLC

Rec == ndJsonDeserialize(IOEnv.TRACE)

VARIABLES l
vars == <<l>>

ObsLx(ev) == [toks |-> ev.toks, ranges |-> ev.ranges, err |-> ev.err, ea |-> ev.ea, eb |-> ev.eb]

PertAllowed(line, lx, pt) ==
    CASE pt.kind = "ins" -> pt.p \in InsPositions(line, lx)
      [] pt.kind = "del" -> pt.p \in DelPositions(line, lx)
      [] pt.kind = "flip" -> pt.p \in FlipPositions(line, lx)
      [] OTHER -> FALSE

\* the listing `list` ("10 ...\n"), read by the model's tokenizer, is the stored line `toks`
ReadsBackAs(list, toks) ==
    list # <<>> /\ list[Len(list)] = LF /\
    LET body == SubSeq(list, 1, Len(list) - 1)
        pl == ParseLineNumber(body)
    IN  pl.some /\ LET re == Tokenize(body, pl.end) IN re.err = "" /\ ToksAgree(re.toks, toks)

\* Sequence of reasons for which the event fails ("" entries removed).
Judge(ev) ==
    LET line == ev.line
        lx == Tokenize(line, 0)
        ll == ListLine(K10, lx.toks)
        reasons == <<
            \* the model itself must satisfy the properties on this line
            IF ~C13Holds(line) THEN "MODEL:C13" ELSE "",
            IF ~C14Holds(line) THEN "MODEL:C14" ELSE "",
            \* pi_C13: observed tokens, ranges, error position
            IF ~ToksAgree(lx.toks, ev.toks) THEN "C13:tokens" ELSE "",
            IF lx.ranges # ev.ranges THEN "C13:ranges" ELSE "",
            IF lx.err # ev.err \/ (lx.err # "" /\ lx.ea # ev.ea) \/ (lx.err = "invalid_number" /\ lx.eb # ev.eb)
                THEN "C13:error" ELSE "",
            \* M_C13 on the observation itself
            IF ev.err = "" /\ ~RangesWellFormed(line, ObsLx(ev)) THEN "C13:ranges_malformed" ELSE "",
            IF ev.err # "" /\ ~(ev.ea < Len(line) /\ LET pre == Tokenize(Slice(line, 0, ev.ea), 0) IN pre.err = "" /\ ToksAgree(pre.toks, ev.toks))
                THEN "C13:error_prefix" ELSE "",
            \* M_C12: every perturbation the property allows left the real tokens unchanged
            IF \E i \in 1..Len(ev.pert) : PertAllowed(line, lx, ev.pert[i]) /\ ~ev.pert[i].same
                THEN "C12:perturbation" ELSE "",
            \* pi_C14 / M_C14
            \* a listing spelled differently from the model's is a violation when, read by the model's
            \* tokenizer, it is not the line that was stored
            IF ev.listed /\ lx.err = "" /\ lx.toks # <<>> /\ ll.ok /\ ll.s # ev.list /\ ~ReadsBackAs(ev.list, ev.toks) THEN "C14:listing" ELSE "",
            IF ev.listed /\ ~ev.reload_same THEN "C14:reload" ELSE "" >>
    IN  SelectSeq(reasons, LAMBDA r : r # "")

Init == l = 0
Next == /\ l < Len(Rec)
        /\ l' = l + 1
        /\ LET ev == Rec[l + 1]
               why == Judge(ev)
           IN  why # <<>> => PrintT(<<"VERDICT", ToJson([i |-> l + 1, why |-> why])>>)

Spec == Init /\ [][Next]_vars
Consumed == IF TLCGet("stats").diameter - 1 = Len(Rec) THEN TRUE
            ELSE PrintT(<<"UNCONSUMED", TLCGet("stats").diameter - 1, Len(Rec)>>) /\ FALSE
=============================================================================
