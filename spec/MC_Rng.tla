------------------------------- MODULE MC_Rng -------------------------------
(***************************************************************************)
(* C18: RND is a pure, in-range function of the seed.                      *)
(* TLC starts the generator from each boundary seed (any 64-bit value is   *)
(* accepted and reduced modulo 2^33) and explores every sequence of        *)
(* positive / zero / negative arguments up to MaxCalls.  Invariants:       *)
(*   InRange     the state is a natural below 2^33 (so the value, state /  *)
(*               2^33, lies in [0, 1))                                     *)
(*   Pure        the k-th value depends only on the seed and on how many   *)
(*               positive arguments preceded it: it is the documented LCG  *)
(*               sequence, independently recomputed with a different       *)
(*               arithmetic (base-2^11 limbs in TLC integers)              *)
(* Every transition is printed as a row (seed, argument signs, expected    *)
(* states and value numerators) that the harness replays.                  *)
(***************************************************************************)
EXTENDS Rng, TLC, Json

CONSTANT MaxCalls, EmitRows

BoundarySeeds == { B("0"), B("1"), B("2"), B("12345"), B("8589934591"), B("8589934592"), B("8589934593"),
                   B("8796093022208"), B("11081109438221"), B("11081109438222"), B("11081109438223"),
                   B("17592186044416"), B("9223372036854775808"), B("18446744073709551615"),
                   B("4294967296"), B("5160"), B("5161"),
                   B("4929753061"), B("4150723358") }      \* the one state whose successor is 0 (RND then returns exactly 0), and its predecessor
Signs == {"pos", "zero", "neg"}          \* in every position of a sequence
Extras == ArgNames \ Signs              \* fractional, huge, signed-zero and non-finite arguments: at most one per sequence, in any position

VARIABLES seed0, seed, hist, nums, pos, ex, cls
vars == <<seed0, seed, hist, nums, pos, ex, cls>>
RngView == <<seed0, seed, Len(hist), ex, cls, pos>>

(***************************************************************************)
(* An independent definition of the k-th state: 33-bit numbers as three    *)
(* base-2^11 limbs <<x0, x1, x2>>, multiplied by 1664525 = 1549 + 812*2^11 *)
(* and incremented by 1013904223 = 863 + 1502*2^11 + 241*2^22 with TLC     *)
(* integers only (every intermediate stays below 2^24).  The term of       *)
(* weight 2^33 vanishes modulo 2^33.                                       *)
(***************************************************************************)
Step11(x) ==
    LET t0 == x[1] * 1549 + 863
        t1 == x[2] * 1549 + x[1] * 812 + 1502 + (t0 \div 2048)
        t2 == x[3] * 1549 + x[2] * 812 + 241 + (t1 \div 2048)
    IN  <<t0 % 2048, t1 % 2048, t2 % 2048>>

RECURSIVE Iter11(_, _)
Iter11(x, k) == IF k = 0 THEN x ELSE Iter11(Step11(x), k - 1)

\* BigNat (base 2^15 limbs) below 2^33 -> base 2^11 limbs
ToLimbs11(s) ==
    LET l1 == IF Len(s) >= 1 THEN s[1] ELSE 0
        l2 == IF Len(s) >= 2 THEN s[2] ELSE 0
        l3 == IF Len(s) >= 3 THEN s[3] ELSE 0
    IN  <<l1 % 2048, (l1 \div 2048) + (l2 % 128) * 16, (l2 \div 128) + l3 * 256>>

Init == /\ seed0 \in BoundarySeeds
        /\ seed = SeedOf(BNFromDigits(seed0))
        /\ hist = <<>> /\ nums = <<>> /\ pos = 0 /\ ex = 0 /\ cls = TRUE

Call(sg) ==
    /\ Len(hist) < MaxCalls
    /\ (sg \in Extras => ex = 0)
    /\ ex' = IF sg \in Extras THEN 1 ELSE ex
    /\ LET r == Rnd(seed, ArgOf(sg))
       IN  /\ seed' = r.seed
           /\ hist' = Append(hist, sg)
           /\ nums' = Append(nums, IF r.e = "" THEN BNDigits(r.seed) ELSE B("error"))
           /\ pos' = IF ArgAdvances(sg) THEN pos + 1 ELSE pos
           /\ cls' = ((r.e = "unimplemented") = ArgFails(sg) /\ (r.e \in {"", "unimplemented"}) /\ (ArgRepeats(sg) => r.seed = seed))
           /\ UNCHANGED seed0
           /\ (EmitRows => PrintT(<<"ROW", ToJson([seed |-> seed0, signs |-> hist', states |-> nums'])>>))

Next == \E sg \in ArgNames : Call(sg)

InRange == SeedInRange(seed)
Classes == cls         \* the last call failed / repeated / advanced as the sign of its argument says
Pure == ToLimbs11(seed) = Iter11(ToLimbs11(SeedOf(BNFromDigits(seed0))), pos)
=============================================================================
