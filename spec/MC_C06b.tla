------------------------------- MODULE MC_C06b -------------------------------
(***************************************************************************)
(* C06 over EXPRESSIONS: every one-line program `10 PRINT e`, `10 X = e`,  *)
(* `10 A$ = e` where e ranges over the expression trees of ExprProps (all  *)
(* operator pairs in both groupings, unary placements, ABS / INT, leaves   *)
(* of both kinds including chained comparisons with string operands).      *)
(* The same two implications as MC_C06, and the same row format.           *)
(***************************************************************************)
EXTENDS ExprProps, Analyzer

CONSTANT Shapes, EmitRows

Bin(op, l, r) == <<"bin", op, l, r>>
L4 == {<<"leaf", t>> : t \in {TkN(NInt(0)), TkN(NInt(2)), TkS("stringliteral", B("A")), TkS("symbol", B("S$")), TkS("symbol", B("X"))}}
TreesOf(shape) ==
    CASE shape = "un" -> {<<"un", u, a>> : u \in UnOps, a \in L4} \cup {<<"fn", f, a>> : f \in Fns, a \in L4}
      [] shape = "bin" -> {Bin(o, a, b) : o \in BinOps, a \in L4, b \in L4}
      [] shape = "unbin" -> {<<"un", u, Bin(o, a, b)>> : u \in UnOps, o \in BinOps, a \in L4, b \in L4}
                        \cup {Bin(o, <<"un", u, a>>, b) : u \in UnOps, o \in BinOps, a \in L4, b \in L4}
      [] shape = "left" -> {Bin(o2, Bin(o1, a, b), c) : o1 \in BinOps, o2 \in BinOps, a \in L4, b \in L4, c \in L4}
      [] shape = "right" -> {Bin(o2, a, Bin(o1, b, c)) : o1 \in BinOps, o2 \in BinOps, a \in L4, b \in L4, c \in L4}

Heads == { <<Tk("print")>>, <<TkS("symbol", B("X")), Tk("equals")>>, <<TkS("symbol", B("A$")), Tk("equals")>> }

VARIABLES tree, head
vars == <<tree, head>>
Init == head \in Heads /\ \E s \in Shapes : tree \in TreesOf(s)
Next == UNCHANGED vars

K10 == <<49, 48>>
toks == head \o Render(tree, FALSE)
Prog == SetLine(Fresh, K10, toks)

RECURSIVE RunOn(_, _)
RunOn(r, fuel) ==
    IF Unknown(r) THEN [ok |-> FALSE, kind |-> "unknown"]
    ELSE IF ~r.res.ok THEN [ok |-> FALSE, kind |-> r.res.kind]
    ELSE IF r.I.mode = "running" /\ fuel > 0 THEN RunOn(Step(r.I, CContinue), fuel - 1)
    ELSE [ok |-> TRUE, kind |-> ""]
RunResult == RunOn(Step(Prog, CSubmit(B("RUN"))), 50)
AErrs == ProgramErrors(Prog)
IsBad(kind) == kind \in {"type_mismatch", "undefined_statement"} \/ (Len(kind) >= 6 /\ SubSeq(kind, 1, 6) = "syntax")

C06 == LET run == RunResult
       IN  run.kind = "unknown" \/
           (/\ (AErrs # <<>>) => ~run.ok
            /\ (AErrs = <<>>) => (run.ok \/ ~IsBad(run.kind)))

ListingBody0 == LET ll == ListLine(K10, toks) IN SubSeq(ll.s, 1, Len(ll.s) - 1)
Row == [text |-> ListingBody0, aerr |-> IF AErrs = <<>> THEN "" ELSE AErrs[1].err, run_ok |-> RunResult.ok, run_kind |-> RunResult.kind]
EmitRow == EmitRows => PrintT(<<"ROW", ToJson(Row)>>)
=============================================================================
