------------------------------- MODULE MC_C06b -------------------------------
(***************************************************************************)
(* C06 over EXPRESSIONS: every one-line program `10 PRINT e`, `10 X = e`,  *)
(* `10 A$ = e` where e ranges over the expression trees of ExprProps (all  *)
(* operator pairs in both groupings, unary placements, ABS / INT, leaves   *)
(* of both kinds including chained comparisons with string operands), and  *)
(* over every position of the language's comma-separated lists ("lists").  *)
(* The same two implications as MC_C06, and the same row format.           *)
(***************************************************************************)
EXTENDS ExprProps, Analyzer

CONSTANT Shapes, EmitRows

Bin(op, l, r) == <<"bin", op, l, r>>
L4 == {<<"leaf", t>> : t \in {TkN(NInt(0)), TkN(NInt(2)), TkS("stringliteral", B("A")), TkS("symbol", B("S$")), TkS("symbol", B("X"))}}
TreesOf(shape) ==
    CASE shape = "un" -> {<<"un", u, a>> : u \in UnOps, a \in L4} \cup {<<"fn", f, a>> : f \in Fns, a \in L4}
      [] shape = "bin" -> {Bin(o, a, b) : o \in BinOps, a \in L4, b \in L4}
      [] shape = "unbin" -> {<<"un", u, Bin(o, a, b)>> : u \in UnOps, o \in BinOps, a \in L4, b \in L4}
                        \cup {Bin(o, <<"un", u, a>>, b) : u \in UnOps, o \in BinOps, a \in L4, b \in L4}
      [] shape = "left" -> {Bin(o2, Bin(o1, a, b), c) : o1 \in BinOps, o2 \in BinOps, a \in L4, b \in L4, c \in L4}
      [] shape = "right" -> {Bin(o2, a, Bin(o1, b, c)) : o1 \in BinOps, o2 \in BinOps, a \in L4, b \in L4, c \in L4}

Heads == { <<Tk("print")>>, <<TkS("symbol", B("X")), Tk("equals")>>, <<TkS("symbol", B("A$")), Tk("equals")>> }

(***************************************************************************)
(* Lists: every position of every comma-separated list the language has -- *)
(* subscripts of an array reference (read, assigned, DIMensioned), the     *)
(* arguments of a user function, the items of PRINT / READ / INPUT / DIM / *)
(* NEXT -- filled with operands of both kinds.                             *)
(***************************************************************************)
T4 == {t[2] : t \in L4}
Sym(n) == TkS("symbol", B(n))
Args(k) == [1..k -> T4]
RECURSIVE Commas(_)
Commas(as) == IF Len(as) = 0 THEN <<>> ELSE IF Len(as) = 1 THEN <<as[1]>> ELSE <<as[1], Tk("comma")>> \o Commas(Tail(as))
Ix(name, as) == <<Sym(name), Tk("leftparen")>> \o Commas(as) \o <<Tk("rightparen")>>
Args123 == Args(1) \cup Args(2) \cup Args(3)
DefF2 == <<Tk("def"), Sym("F"), Tk("leftparen"), Sym("A"), Tk("comma"), Sym("B"), Tk("rightparen"), Tk("equals"), Sym("A"), Tk("plus"), Sym("B"), Tk("colon")>>
DefG2 == <<Tk("def"), Sym("G"), Tk("leftparen"), Sym("A"), Tk("comma"), Sym("B$"), Tk("rightparen"), Tk("equals"), Sym("A"), Tk("colon")>>
DataHead == <<TkD(<<ItemN(NInt(1)), ItemN(NInt(2)), ItemS(B("x"))>>), Tk("colon")>>
ListProgs ==
    {h \o Ix("Q", as) : h \in Heads, as \in Args123}                                           \* array element read
    \cup {Ix("Q", as) \o <<Tk("equals"), TkN(NInt(0))>> : as \in Args123}                       \* ... assigned
    \cup {Ix("Q$", as) \o <<Tk("equals"), TkS("stringliteral", B("A"))>> : as \in Args(2)}
    \cup {<<Tk("dim")>> \o Ix("Q", as) : as \in Args123}                                        \* ... dimensioned
    \cup {<<Tk("dim")>> \o Ix("R", <<TkN(NInt(2))>>) \o <<Tk("comma")>> \o Ix("Q", as) : as \in Args(1) \cup Args(2)}
    \cup {DefF2 \o <<Tk("print")>> \o Ix("F", as) : as \in Args123}                              \* user function arguments
    \cup {DefG2 \o <<Tk("print")>> \o Ix("G", as) : as \in Args(2)}
    \cup {<<Tk("print")>> \o Ix("Q", <<a>>) \o <<sep>> \o Ix("Q", as) : a \in T4, sep \in {Tk("comma"), Tk("semicolon")}, as \in Args(1) \cup Args(2)}
    \cup {DataHead \o <<Tk("read")>> \o Commas(as) : as \in [1..2 -> {Sym("X"), Sym("S$"), TkN(NInt(0)), TkS("stringliteral", B("A"))}]}
    \cup {DataHead \o <<Tk("read"), Sym("X"), Tk("comma")>> \o Ix("Q", as) : as \in Args(1) \cup Args(2)}
    \cup {<<Tk("input")>> \o Commas(as) : as \in [1..1 -> {Sym("X"), Sym("S$"), TkN(NInt(0))}] \cup [1..2 -> {Sym("X"), Sym("S$"), TkN(NInt(0))}]}
    \cup {<<Tk("input")>> \o Ix("Q", as) \o <<Tk("colon"), Tk("print")>> \o Ix("Q", as) : as \in Args(1) \cup Args(2)}
    \* a DEF that reuses the name of a builtin: the builtin wins at run time, so the checker must judge calls by the builtin
    \cup {<<Tk("def"), Sym(f), Tk("leftparen"), Sym("A"), Tk("comma"), Sym("B"), Tk("rightparen"), Tk("equals"), Sym("A"), Tk("plus"), Sym("B"), Tk("colon"), Tk("print")>>
             \o Ix(f, as) : f \in {"RND", "INT", "ABS"}, as \in [1..1 -> {TkN(NInt(2)), TkS("stringliteral", B("A"))}] \cup [1..2 -> {TkN(NInt(2)), TkS("stringliteral", B("A"))}]}
    \cup {<<Tk("def"), Sym(f), Tk("leftparen"), Sym("A$"), Tk("rightparen"), Tk("equals"), TkN(NInt(1)), Tk("colon"), Sym("X"), Tk("equals")>>
             \o Ix(f, as) : f \in {"INT", "ABS"}, as \in [1..1 -> {TkN(NInt(2)), TkS("stringliteral", B("A"))}]}
    \* what follows a STOP on its line is reached by CONT
    \cup {<<Tk("stop"), Tk("colon"), Tk("print"), a, Tk("plus"), b>> : a \in T4, b \in T4}
    \cup {<<Tk("print"), TkN(NInt(1)), Tk("colon"), Tk("stop"), Tk("colon"), Sym("X"), Tk("equals"), a>> : a \in T4}
    \cup {<<Tk("for"), Sym("I"), Tk("equals"), a, Tk("to"), b, Tk("step"), c, Tk("colon"), Tk("next"), Sym("I")>> : a \in T4, b \in T4, c \in T4}
    \cup {<<Tk("if"), a, Tk("then"), Tk("print"), b, Tk("else"), Tk("print")>> \o Ix("Q", as) : a \in T4, b \in T4, as \in Args(2)}

ProgsOf(shape) == IF shape = "lists" THEN ListProgs ELSE {h \o Render(t, FALSE) : h \in Heads, t \in TreesOf(shape)}

VARIABLES toks
vars == <<toks>>
Init == \E s \in Shapes : toks \in ProgsOf(s)
Next == UNCHANGED vars

K10 == <<49, 48>>
Prog == SetLine(Fresh, K10, toks)

\* the printed text of a sequence of output records, and whether the model knows all of it
RECURSIVE PrintedText(_)
PrintedText(outs) == IF outs = <<>> THEN [s |-> <<>>, unk |-> FALSE]
                     ELSE LET t == PrintedText(Tail(outs))
                          IN  IF outs[1].t = "print" THEN [s |-> outs[1].text \o t.s, unk |-> outs[1].unk \/ t.unk] ELSE t

RECURSIVE RunFrom(_, _, _)
RunFrom(r, fuel, outs) ==
    LET o == outs \o r.out
    IN  IF Unknown(r) THEN [ok |-> FALSE, kind |-> "unknown", out |-> o, line |-> <<>>]
        ELSE IF ~r.res.ok THEN [ok |-> FALSE, kind |-> r.res.kind, out |-> o, line |-> IF r.res.hl THEN r.res.line ELSE <<>>]
        ELSE IF r.I.mode = "running" /\ fuel > 0 THEN RunFrom(Step(r.I, CContinue), fuel - 1, o)
        ELSE IF r.I.mode = "idle" /\ r.I.bp.some /\ fuel > 0 THEN RunFrom(Step(r.I, CSubmit(B("CONT"))), fuel - 1, o)      \* a STOP is resumed with CONT
        ELSE IF r.I.mode = "awaiting" /\ fuel > 0 THEN RunFrom(Step(r.I, CProvide(B("1"))), fuel - 1, o)       \* every INPUT is answered 1
        ELSE [ok |-> r.I.mode = "idle", kind |-> IF r.I.mode = "idle" THEN "" ELSE "unknown", out |-> o, line |-> <<>>]
RunOn(r, fuel) == RunFrom(r, fuel, <<>>)
RunResult == RunOn(Step(Prog, CSubmit(B("RUN"))), 50)
AErrs == ProgramErrors(Prog)
IsBad(kind) == kind \in {"type_mismatch", "undefined_statement"} \/ (Len(kind) >= 6 /\ SubSeq(kind, 1, 6) = "syntax")

\* the converse half is promised for straight-line lines only
NonStraight == {"if", "then", "else", "goto", "gosub", "return", "next", "end", "stop", "input", "def"}
Straight == \A i \in 1..Len(toks) : toks[i].k \notin NonStraight

C06 == LET run == RunResult
       IN  run.kind = "unknown" \/
           (/\ (AErrs # <<>> /\ Straight) => ~run.ok
            /\ (AErrs = <<>>) => (run.ok \/ ~IsBad(run.kind)))

ListingBody0 == LET ll == ListLine(K10, toks) IN SubSeq(ll.s, 1, Len(ll.s) - 1)
Row == [text |-> ListingBody0, aerr |-> IF AErrs = <<>> THEN "" ELSE AErrs[1].err, run_ok |-> RunResult.ok, run_kind |-> RunResult.kind, straight |-> Straight,
        \* C03 on the same programs: the printed output and, on failure, the line
        out |-> PrintedText(RunResult.out).s, out_known |-> RunResult.kind # "unknown" /\ ~PrintedText(RunResult.out).unk,
        err_line |-> RunResult.line]
EmitRow == EmitRows => PrintT(<<"ROW", ToJson(Row)>>)
=============================================================================
