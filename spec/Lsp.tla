-------------------------------- MODULE Lsp --------------------------------
(***************************************************************************)
(* The language server (abasic-lsp): a map from document URI to the        *)
(* analysis of its latest text.  didOpen / didChange re-analyse the text   *)
(* and publish diagnostics: the image of the analyzer's messages under the *)
(* source map, with columns measured in UTF-16 code units as the protocol  *)
(* prescribes.  semanticTokens/full returns the per-line token classes,    *)
(* delta-encoded, in the same units.                                       *)
(***************************************************************************)
EXTENDS AnalyzerProps

Legend == <<"symbol", "string", "number", "operator", "comment", "keyword", "delimiter", "data">>     \* indices 0..7
LegendIndex(c) == (CHOOSE i \in 1..8 : Legend[i] = c) - 1

Col16(line, b) == Utf16Len(line, b)

\* the diagnostics published for a text: a BAG (sequence in no particular order) of
\* [line, a, b, sev]  (sev 1 = error, 2 = warning); two messages may share a range
Diagnostics(text) ==
    LET an == Analyze(text)
        all == an.msgs \o SetToSeqBy(an.symmsgs)
        mapped == SelectSeq([i \in 1..Len(all) |-> [m |-> all[i], s |-> MapToSource(an, all[i])]], LAMBDA p : p.s.some)
    IN  [i \in 1..Len(mapped) |->
            [line |-> mapped[i].s.fline, a |-> Col16(an.lines[mapped[i].s.fline + 1], mapped[i].s.a),
             b |-> Col16(an.lines[mapped[i].s.fline + 1], mapped[i].s.b), sev |-> IF mapped[i].m.k = "error" THEN 1 ELSE 2]]

\* absolute semantic tokens: a sequence of [line, start, len, type]
RECURSIVE TokensFrom(_, _)
TokensFrom(an, i) ==
    IF i > Len(an.infos) THEN <<>>
    ELSE LET ts == LineTokens(an.infos[i])
             line == an.lines[i]
         IN  [j \in 1..Len(ts) |-> [line |-> i - 1, start |-> Col16(line, ts[j].a), len |-> Col16(line, ts[j].b) - Col16(line, ts[j].a),
                                    type |-> LegendIndex(ts[j].c)]] \o TokensFrom(an, i + 1)
SemanticTokens(text) == TokensFrom(Analyze(text), 1)

\* the LSP wire encoding: [deltaLine, deltaStart, length, type, 0] relative to the previous token
RECURSIVE DeltaEncode(_, _, _, _)
DeltaEncode(toks, i, pl, ps) ==
    IF i > Len(toks) THEN <<>>
    ELSE LET t == toks[i]
             dl == t.line - pl
             ds == IF dl = 0 THEN t.start - ps ELSE t.start
         IN  <<dl, ds, t.len, t.type, 0>> \o DeltaEncode(toks, i + 1, t.line, t.start)
WireTokens(text) == DeltaEncode(SemanticTokens(text), 1, 0, 0)

(***************************************************************************)
(* C20 on the model: every reported position lies inside the document.     *)
(***************************************************************************)
C20Holds(text) ==
    LET an == Analyze(text)
        toks == SemanticTokens(text)
        ds == Diagnostics(text)
    IN  /\ \A k \in 1..Len(ds) : LET d == ds[k] IN
              /\ d.line >= 0 /\ d.line < Len(an.lines)
              /\ 0 <= d.a /\ d.a <= d.b /\ d.b <= Utf16Len(an.lines[d.line + 1], Len(an.lines[d.line + 1]))
        /\ \A i \in 1..Len(toks) :
              /\ toks[i].line < Len(an.lines) /\ toks[i].type \in 0..7 /\ toks[i].len > 0
              /\ toks[i].start + toks[i].len <= Utf16Len(an.lines[toks[i].line + 1], Len(an.lines[toks[i].line + 1]))
              /\ (i > 1 => (toks[i - 1].line < toks[i].line \/ (toks[i - 1].line = toks[i].line /\ toks[i - 1].start + toks[i - 1].len <= toks[i].start)))

(***************************************************************************)
(* The server: docs == uri -> text.  Requests and the replies they get.    *)
(***************************************************************************)
LspStep(docs, req) ==
    CASE req.k \in {"open", "change"} ->
            [docs |-> (req.uri :> req.text) @@ docs, reply |-> [k |-> "diagnostics", uri |-> req.uri, diags |-> Diagnostics(req.text), toks |-> <<>>]]
      [] req.k = "tokens" ->
            IF req.uri \in DOMAIN docs
            THEN [docs |-> docs, reply |-> [k |-> "tokens", uri |-> req.uri, diags |-> <<>>, toks |-> WireTokens(docs[req.uri])]]
            ELSE [docs |-> docs, reply |-> [k |-> "error", uri |-> req.uri, diags |-> <<>>, toks |-> <<>>]]
=============================================================================
