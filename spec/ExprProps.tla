------------------------------ MODULE ExprProps ------------------------------
(***************************************************************************)
(* C02: expressions evaluate per precedence, associativity and typing.     *)
(*                                                                         *)
(* Two independent definitions:                                            *)
(*   EvalExpr   the token-cursor recursive descent of Abasic.tla,          *)
(*              structured like the code (no syntax tree);                 *)
(*   Fold       a direct fold of a syntax tree under the stated rules.     *)
(* For every enumerated tree t, rendered with minimal and with redundant   *)
(* parentheses:  EvalExpr(Render(t, min)) = Fold(t) = EvalExpr(Render(t,   *)
(* red)).  Each tree is also printed as a table row that the harness runs  *)
(* through the real interpreter as `PRINT <expr>`.                         *)
(*                                                                         *)
(* Trees are nested tuples: <<"leaf", token>>, <<"un", op, t>>,            *)
(* <<"bin", op, l, r>>, <<"fn", name, t>>.                                 *)
(***************************************************************************)
EXTENDS Abasic, Json

NumLeaves == { TkN(NInt(0)), TkN(NInt(1)), TkN(NInt(2)), TkN(NInt(3)), TkN(Mk(1, 1)),
               TkS("symbol", B("X")), TkS("symbol", B("U")) }
StrLeaves == { TkS("stringliteral", <<>>), TkS("stringliteral", B("A")), TkS("stringliteral", B("B")),
               TkS("symbol", B("S$")), TkS("symbol", B("U$")),           \* S$ is set, U$ never assigned
               TkS("symbol", B("R5$")), TkS("stringliteral", B("5")) }   \* R5$ = "5" was READ from the numeric DATA item 5
Leaves == {<<"leaf", t>> : t \in NumLeaves \cup StrLeaves}
SpecLeaves == {<<"leaf", TkS("symbol", B("QN"))>>, <<"leaf", TkS("symbol", B("QP"))>>, <<"leaf", TkS("symbol", B("QM"))>>}
SpecMix == SpecLeaves \cup {<<"leaf", t>> : t \in {TkN(NInt(0)), TkN(NInt(1)), TkN(NInt(2)), TkN(Mk(1, 1)), TkN(NInt(1101)), TkS("stringliteral", B("A"))}}
FewLeaves == {<<"leaf", t>> : t \in {TkN(NInt(0)), TkN(NInt(2)), TkN(NInt(3)), TkN(Mk(1, 1)), TkS("stringliteral", B("A")), TkS("symbol", B("S$")),
                                       TkS("symbol", B("U$")), TkS("stringliteral", <<>>)}}

BinOps == {"or", "and", "equals", "notequals", "lessthan", "lessthanorequalto", "greaterthan",
           "greaterthanorequalto", "plus", "minus", "multiply", "divide", "caret"}
UnOps == {"plus", "minus", "not"}
Fns == {B("ABS"), B("INT")}

\* the state in which expressions are evaluated
Vars0 == (B("X") :> VNum(Mk(5, 1))) @@ (B("S$") :> VStr(B("B")))
         @@ (B("R5$") :> VStr(B("5"))) @@ (B("QN") :> VNum(NaN)) @@ (B("QP") :> VNum(PInf)) @@ (B("QM") :> VNum(NInf))      \* the IEEE special values
I0 == [Fresh EXCEPT !.vars = Vars0]

Prec(op) == CASE op = "or" -> 1 [] op = "and" -> 2 [] op \in EqualityOps -> 3
              [] op \in {"plus", "minus"} -> 4 [] op \in {"multiply", "divide"} -> 5 [] op = "caret" -> 6
TreePrec(t) == IF t[1] = "bin" THEN Prec(t[2]) ELSE IF t[1] = "un" THEN 7 ELSE 8

(***************************************************************************)
(* Fold: the meaning of a tree.  [e, v].                                   *)
(***************************************************************************)
RECURSIVE Fold(_)
Fold(t) ==
    CASE t[1] = "leaf" ->
            LET tok == t[2]
            IN  IF tok.k = "stringliteral" THEN [e |-> "", v |-> VStr(tok.s)]
                ELSE IF tok.k = "numericliteral" THEN [e |-> "", v |-> VNum(tok.v)]
                ELSE [e |-> "", v |-> IF tok.s \in DOMAIN Vars0 THEN Vars0[tok.s] ELSE DefaultFor(tok.s)]
      [] t[1] = "un" ->
            LET a == Fold(t[3]) IN IF a.e # "" THEN a ELSE Unary(t[2], a.v)
      [] t[1] = "fn" ->
            LET a == Fold(t[3])
            IN  IF a.e # "" THEN a
                ELSE IF IsStr(a.v) THEN [e |-> "type_mismatch", v |-> a.v]
                ELSE IF t[2] = B("ABS") THEN [e |-> "", v |-> VNum(NAbs(NumOf(a.v)))]
                ELSE [e |-> "", v |-> VNum(NFloor(NumOf(a.v)))]
      [] t[1] = "bin" ->
            LET a == Fold(t[3])
            IN  IF a.e # "" THEN a
                ELSE LET b == Fold(t[4])
                     IN  IF b.e # "" THEN b
                         ELSE CASE t[2] = "or" -> LogicOr(a.v, b.v)
                                [] t[2] = "and" -> LogicAnd(a.v, b.v)
                                [] t[2] \in EqualityOps -> Compare(t[2], a.v, b.v)
                                [] t[2] = "caret" -> Power(a.v, b.v)
                                [] OTHER -> Arith(t[2], a.v, b.v)

(***************************************************************************)
(* Rendering to tokens.                                                    *)
(***************************************************************************)
LP == Tk("leftparen")
RP == Tk("rightparen")
Paren(ts) == <<LP>> \o ts \o <<RP>>

RECURSIVE Render(_, _)
Render(t, red) ==
    LET Sub(c, need) == IF red \/ need THEN Paren(Render(c, red)) ELSE Render(c, red)
    IN  CASE t[1] = "leaf" -> <<t[2]>>
          [] t[1] = "un" -> <<Tk(t[2])>> \o Sub(t[3], t[3][1] \in {"bin", "un"})
          [] t[1] = "fn" -> <<TkS("symbol", t[2])>> \o Paren(Render(t[3], red))
          [] t[1] = "bin" ->
                Sub(t[3], TreePrec(t[3]) < Prec(t[2])) \o <<Tk(t[2])>> \o Sub(t[4], TreePrec(t[4]) <= Prec(t[2]))

EvalTokens(ts) ==
    LET r == EvalExpr([I0 EXCEPT !.imm = ts])
    IN  IF r.e # "" THEN [e |-> r.e, v |-> VNum(NZero)]
        ELSE IF HasTok(r.I) THEN [e |-> "trailing_tokens", v |-> r.v]
        ELSE [e |-> "", v |-> r.v]

Same(a, b) == a.e = b.e /\ (a.e # "" \/ a.v = b.v)

Printed(f) == IF f.e # "" THEN [ok |-> TRUE, s |-> <<>>]
              ELSE IF IsStr(f.v) THEN [ok |-> TRUE, s |-> Append(f.v.s, LF)]
              ELSE LET p == NPrint(NumOf(f.v)) IN [ok |-> p.ok, s |-> Append(p.s, LF)]

=============================================================================
