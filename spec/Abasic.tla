------------------------------- MODULE Abasic -------------------------------
(***************************************************************************)
(* The abasic interpreter as the host sees it: a sequential, turn-taking   *)
(* state machine.  One host call = one action; one call executes at most   *)
(* one statement.  The whole transition relation is the function           *)
(*                                                                         *)
(*      Step(I, c)  ==  [I |-> state after, out |-> outputs, res |-> result]*)
(*                                                                         *)
(* from (interpreter record, call) -- it is deterministic, so trace        *)
(* validation is a fold and relational properties (C07, C10, C11, C17) are *)
(* one-step lemmas evaluated at every reachable state.                     *)
(*                                                                         *)
(* The evaluator is structured like the code: a token cursor, expressions  *)
(* evaluated while they are parsed (no syntax tree), statement dispatch on *)
(* the first token.  Where the listed properties demand behaviour, this    *)
(* specification states the demanded behaviour.                            *)
(***************************************************************************)
EXTENDS Lexer, Rng, TLC

STACK_LIMIT == 32
MAX_NEST == 64                  \* nesting cap of expressions and of statements (IF ... THEN IF ...)
MAX_CELLS == 10000
DEFAULT_MAX_INDEX == 10

(***************************************************************************)
(* Values: a string, or a model number.                                    *)
(***************************************************************************)
VStr(s) == [t |-> "s", n |-> 0, d |-> 0, s |-> s]
VNum(x) == [t |-> x.t, n |-> x.n, d |-> x.d, s |-> <<>>]
NumOf(v) == [t |-> v.t, n |-> v.n, d |-> v.d]
IsStr(v) == v.t = "s"
VBool(b) == IF b THEN VNum(NOne) ELSE VNum(NZero)
EndsWithDollar(name) == name # <<>> /\ name[Len(name)] = DOLLAR
DefaultFor(name) == IF EndsWithDollar(name) THEN VStr(<<>>) ELSE VNum(NZero)
KindMatches(name, v) == EndsWithDollar(name) = IsStr(v)
\* truthiness: "T", "F" or "U" (unknown: the model does not know the magnitude)
Truth(v) == IF IsStr(v) THEN (IF v.s # <<>> THEN "T" ELSE "F")
            ELSE IF v.t = "o" THEN "U"
            ELSE IF IsZero(NumOf(v)) THEN "F" ELSE "T"

(***************************************************************************)
(* Locations, outputs, results.                                            *)
(***************************************************************************)
IMM == <<>>                                  \* the immediate line
Loc(line, tok) == [line |-> line, tok |-> tok]
ImmLoc == Loc(IMM, 0)
NoLoc == [some |-> FALSE, line |-> IMM, tok |-> 0]
SomeLoc(l) == [some |-> TRUE, line |-> l.line, tok |-> l.tok]

Out(t) == [t |-> t, text |-> <<>>, line |-> IMM, what |-> "", unk |-> FALSE]
OutPrint(text, unk) == [Out("print") EXCEPT !.text = text, !.unk = unk]
OutTrace(line) == [Out("trace") EXCEPT !.line = line]
OutWarn(what, line) == [Out("warning") EXCEPT !.what = what, !.line = line]
OutBreak(line) == [Out("break") EXCEPT !.line = line]

ResOk == [ok |-> TRUE, kind |-> "", hl |-> FALSE, line |-> IMM, tok |-> 0]
ResErr(kind, xl) == [ok |-> FALSE, kind |-> kind, hl |-> xl.some, line |-> xl.line, tok |-> xl.tok]

(***************************************************************************)
(* The interpreter record.                                                 *)
(***************************************************************************)
NoBp == [some |-> FALSE, line |-> IMM, tok |-> 0]
NoData == [some |-> FALSE, chunks |-> <<>>, chunk |-> 0, item |-> 0]
NoInput == [some |-> FALSE, text |-> <<>>]

Fresh == [ mode |-> "idle",
           prog |-> <<>>,            \* line key -> token sequence (non-empty bodies only)
           keys |-> <<>>,            \* the line keys in ascending numeric order
           imm |-> <<>>,             \* the immediate line
           loc |-> ImmLoc,           \* token cursor
           bp |-> NoBp,              \* pending breakpoint
           stack |-> <<>>,           \* GOSUB / function frames: [ret, binds]
           loops |-> <<>>,           \* FOR stack: [sym, loc, to, step]
           data |-> NoData,          \* DATA cursor: the chunks collected when it was created, and a position
           fns |-> <<>>,             \* name -> [args, line, tok]
           vars |-> <<>>,            \* name -> value
           arrays |-> <<>>,          \* name -> [dims, cells (non-default only)]
           input |-> NoInput,        \* pending INPUT reply
           seed |-> <<>>,            \* generator state (BigNat)
           trace |-> FALSE, warn |-> FALSE,
           nest |-> 0, snest |-> 0,  \* current nesting depth of the expression / statement being evaluated
           out |-> <<>> ]            \* outputs of the call in progress

Put(f, k, v) == (k :> v) @@ f
Drop(f, k) == [x \in (DOMAIN f) \ {k} |-> f[x]]

(***************************************************************************)
(* Program store: a map from line key to tokens, plus the keys in          *)
(* ascending numeric order (the code keeps a hash map and a sorted set).   *)
(***************************************************************************)
RECURSIVE KeyPosFrom(_, _, _)
KeyPosFrom(keys, k, i) == IF i > Len(keys) THEN 0 ELSE IF keys[i] = k THEN i ELSE KeyPosFrom(keys, k, i + 1)
KeyPos(keys, k) == KeyPosFrom(keys, k, 1)

RECURSIVE InsertKeyFrom(_, _, _)
InsertKeyFrom(keys, k, i) == \* position (1-based) before which k goes
    IF i > Len(keys) THEN i ELSE IF KeyLess(k, keys[i]) THEN i ELSE InsertKeyFrom(keys, k, i + 1)
InsertKey(keys, k) ==
    IF KeyPos(keys, k) > 0 THEN keys
    ELSE LET p == InsertKeyFrom(keys, k, 1) IN SubSeq(keys, 1, p - 1) \o <<k>> \o SubSeq(keys, p, Len(keys))
RemoveKey(keys, k) ==
    LET p == KeyPos(keys, k) IN IF p = 0 THEN keys ELSE SubSeq(keys, 1, p - 1) \o SubSeq(keys, p + 1, Len(keys))

HasFirst(I) == I.keys # <<>>
FirstKey(I) == I.keys[1]
HasAfter(I, k) == LET p == KeyPos(I.keys, k) IN p > 0 /\ p < Len(I.keys)
AfterKey(I, k) == I.keys[KeyPos(I.keys, k) + 1]

SetLine(I, k, toks) ==
    IF toks = <<>> THEN [I EXCEPT !.prog = Drop(@, k), !.keys = RemoveKey(@, k)]
    ELSE [I EXCEPT !.prog = Put(@, k, toks), !.keys = InsertKey(@, k)]

\* DATA chunks in line order: [line, tok, items]
RECURSIVE ChunksOfLine(_, _, _)
ChunksOfLine(k, toks, i) ==
    IF i > Len(toks) THEN <<>>
    ELSE (IF toks[i].k = "data" THEN <<[line |-> k, tok |-> i - 1, items |-> toks[i].items]>> ELSE <<>>)
         \o ChunksOfLine(k, toks, i + 1)
RECURSIVE ChunksOfKeys(_, _)
ChunksOfKeys(prog, ks) ==
    IF ks = <<>> THEN <<>> ELSE ChunksOfLine(ks[1], prog[ks[1]], 1) \o ChunksOfKeys(prog, Tail(ks))
DataChunks(I) == ChunksOfKeys(I.prog, I.keys)

(***************************************************************************)
(* Token cursor.                                                           *)
(***************************************************************************)
TokensOf(I, line) == IF line = IMM THEN I.imm ELSE I.prog[line]
Toks(I) == TokensOf(I, I.loc.line)
Peek(I) == LET ts == Toks(I) IN IF I.loc.tok < Len(ts) THEN ts[I.loc.tok + 1] ELSE NoTok
HasTok(I) == I.loc.tok < Len(Toks(I))
Adv(I) == [I EXCEPT !.loc.tok = @ + 1]
DiscardRest(I) == [I EXCEPT !.loc.tok = Len(Toks(I))]
PrevLoc(I) == Loc(I.loc.line, IF I.loc.tok > 0 THEN I.loc.tok - 1 ELSE 0)
Emit(I, o) == [I EXCEPT !.out = Append(@, o)]
WarnIf(I, cond, what) == IF I.warn /\ cond THEN Emit(I, OutWarn(what, I.loc.line)) ELSE I

\* set_and_goto_immediate_line: the stack survives only while a breakpoint is pending
SetImm(I, toks) == [I EXCEPT !.stack = IF I.bp.some THEN @ ELSE <<>>, !.imm = toks, !.loc = ImmLoc]

(***************************************************************************)
(* Evaluation results.  e = "" (ok), an error kind, or "unknown" (the      *)
(* model declines to predict: the outcome depends on an Opaque number).    *)
(* xl is the explicit error location, when the error carries one.          *)
(***************************************************************************)
R(I, v, e) == [I |-> I, v |-> v, e |-> e, xl |-> NoLoc]
ROk(I, v) == R(I, v, "")
RErr(I, e) == R(I, VNum(NZero), e)
REnd(I) == [I |-> I, v |-> VNum(NZero), e |-> "syntax_unexpected_end_of_input", xl |-> SomeLoc(I.loc)]
Fail(r) == r.e # ""

\* expect_next_token: consumes the token even when it is the wrong one
Expect(I, kind) ==
    IF ~HasTok(I) THEN REnd(I)
    ELSE IF Peek(I).k = kind THEN ROk(Adv(I), VNum(NZero))
    ELSE RErr(Adv(I), "syntax_expected_token")

(***************************************************************************)
(* Arrays.                                                                 *)
(***************************************************************************)
RECURSIVE CellCountCapped(_)         \* product of sizes, or MAX_CELLS + 1 as soon as it exceeds the cap
CellCountCapped(sizes) ==
    IF sizes = <<>> THEN 1
    ELSE LET rest == CellCountCapped(Tail(sizes))
         IN  IF rest > MAX_CELLS \/ sizes[1] > MAX_CELLS THEN MAX_CELLS + 1
             ELSE IF sizes[1] * rest > MAX_CELLS THEN MAX_CELLS + 1 ELSE sizes[1] * rest

\* [e, arr] : a new array with the given maximum indices
NewArray(maxIdx) ==
    LET sizes == [i \in 1..Len(maxIdx) |-> maxIdx[i] + 1]
    IN  IF maxIdx = <<>> THEN [e |-> "bad_subscript", arr |-> [dims |-> <<>>, cells |-> <<>>]]
        ELSE IF CellCountCapped(sizes) > MAX_CELLS
             THEN [e |-> "out_of_memory_array_too_large", arr |-> [dims |-> <<>>, cells |-> <<>>]]
        ELSE [e |-> "", arr |-> [dims |-> sizes, cells |-> <<>>]]

RECURSIVE LinearFrom(_, _, _, _)
LinearFrom(idx, dims, i, stride) ==
    IF i > Len(idx) THEN 0 ELSE idx[i] * stride + LinearFrom(idx, dims, i + 1, stride * dims[i])
\* -1 for a bad subscript
LinearIndex(arr, idx) ==
    IF Len(idx) # Len(arr.dims) THEN 0 - 1
    ELSE IF \E i \in 1..Len(idx) : idx[i] >= arr.dims[i] THEN 0 - 1
    ELSE LinearFrom(idx, arr.dims, 1, 1)

\* maybe_create_default_array: [e, arrays]
EnsureArray(arrays, name, rank) ==
    IF name \in DOMAIN arrays THEN [e |-> "", arrays |-> arrays]
    ELSE LET na == NewArray([i \in 1..rank |-> DEFAULT_MAX_INDEX])
         IN  IF na.e # "" THEN [e |-> na.e, arrays |-> arrays]
             ELSE [e |-> "", arrays |-> Put(arrays, name, na.arr)]

ArrayGet(I, name, idx) ==
    LET en == EnsureArray(I.arrays, name, Len(idx))
    IN  IF en.e # "" THEN RErr(I, en.e)
        ELSE LET I2 == [I EXCEPT !.arrays = en.arrays]
                 arr == en.arrays[name]
                 li == LinearIndex(arr, idx)
             IN  IF li < 0 THEN RErr(I2, "bad_subscript")
                 ELSE ROk(I2, IF li \in DOMAIN arr.cells THEN arr.cells[li] ELSE DefaultFor(name))

ArraySet(I, name, idx, v) ==
    IF ~KindMatches(name, v) THEN RErr(I, "type_mismatch")
    ELSE LET en == EnsureArray(I.arrays, name, Len(idx))
         IN  IF en.e # "" THEN RErr(I, en.e)
             ELSE LET I2 == [I EXCEPT !.arrays = en.arrays]
                      arr == en.arrays[name]
                      li == LinearIndex(arr, idx)
                  IN  IF li < 0 THEN RErr(I2, "bad_subscript")
                      ELSE LET cells == IF v = DefaultFor(name) THEN Drop(arr.cells, li) ELSE Put(arr.cells, li, v)
                           IN  ROk([I2 EXCEPT !.arrays = Put(@, name, [arr EXCEPT !.cells = cells])], v)

VarSet(I, name, v) ==
    IF ~KindMatches(name, v) THEN RErr(I, "type_mismatch")
    ELSE ROk([I EXCEPT !.vars = Put(@, name, v)], v)

RECURSIVE FindInFrames(_, _, _)
FindInFrames(stack, i, name) == \* topmost frame first
    IF i = 0 THEN [found |-> FALSE, v |-> VNum(NZero)]
    ELSE IF name \in DOMAIN stack[i].binds THEN [found |-> TRUE, v |-> stack[i].binds[name]]
    ELSE FindInFrames(stack, i - 1, name)

(***************************************************************************)
(* Operators.                                                              *)
(***************************************************************************)
CmpHolds(op, c) == \* c is -1, 0 or 1
    IF c = 2 THEN op = "notequals" ELSE          \* unordered (a NaN operand): only <> holds
    CASE op = "equals" -> c = 0
      [] op = "notequals" -> c # 0
      [] op = "lessthan" -> c < 0
      [] op = "lessthanorequalto" -> c <= 0
      [] op = "greaterthan" -> c > 0
      [] op = "greaterthanorequalto" -> c >= 0
EqualityOps == {"equals", "notequals", "lessthan", "lessthanorequalto", "greaterthan", "greaterthanorequalto"}

\* all binary operators: [e, v]
Compare(op, a, b) ==
    IF IsStr(a) /\ IsStr(b)
    THEN [e |-> "", v |-> VBool(CmpHolds(op, IF a.s = b.s THEN 0 ELSE IF BytesLess(a.s, b.s) THEN 0 - 1 ELSE 1))]
    ELSE IF IsStr(a) \/ IsStr(b) THEN [e |-> "type_mismatch", v |-> a]
    ELSE IF a.t = "o" \/ b.t = "o" THEN [e |-> "unknown", v |-> a]
    ELSE [e |-> "", v |-> VBool(CmpHolds(op, NCmp(NumOf(a), NumOf(b))))]

Arith(op, a, b) ==
    IF IsStr(a) \/ IsStr(b) THEN [e |-> "type_mismatch", v |-> a]
    ELSE LET x == NumOf(a)
             y == NumOf(b)
         IN  CASE op = "plus" -> [e |-> "", v |-> VNum(NAdd(x, y))]
               [] op = "minus" -> [e |-> "", v |-> VNum(NSub(x, y))]
               [] op = "multiply" -> [e |-> "", v |-> VNum(NMul(x, y))]
               [] op = "divide" ->
                    IF y.t = "o" THEN [e |-> "unknown", v |-> a]
                    ELSE LET q == NDiv(x, y)
                         IN  IF q.e # "" THEN [e |-> "division_by_zero", v |-> a] ELSE [e |-> "", v |-> VNum(q.v)]

Power(a, b) ==
    IF IsStr(a) \/ IsStr(b) THEN [e |-> "type_mismatch", v |-> a]
    ELSE [e |-> "", v |-> VNum(NPow(NumOf(a), NumOf(b)))]

LogicAnd(a, b) ==
    LET x == Truth(a)
        y == Truth(b)
    IN  IF x = "F" \/ y = "F" THEN [e |-> "", v |-> VBool(FALSE)]
        ELSE IF x = "T" /\ y = "T" THEN [e |-> "", v |-> VBool(TRUE)]
        ELSE [e |-> "unknown", v |-> a]
LogicOr(a, b) ==
    LET x == Truth(a)
        y == Truth(b)
    IN  IF x = "T" \/ y = "T" THEN [e |-> "", v |-> VBool(TRUE)]
        ELSE IF x = "F" /\ y = "F" THEN [e |-> "", v |-> VBool(FALSE)]
        ELSE [e |-> "unknown", v |-> a]

Unary(op, v) ==
    CASE op = "plus" -> [e |-> "", v |-> v]
      [] op = "minus" -> IF IsStr(v) THEN [e |-> "type_mismatch", v |-> v] ELSE [e |-> "", v |-> VNum(NNeg(NumOf(v)))]
      [] op = "not" -> LET t == Truth(v) IN IF t = "U" THEN [e |-> "unknown", v |-> v] ELSE [e |-> "", v |-> VBool(t = "F")]

Builtins == {B("ABS"), B("INT"), B("RND")}

(***************************************************************************)
(* Expressions: one recursive-descent level per precedence tier, each a    *)
(* left-folding loop.  OR < AND < comparisons < + - < * / < ^ < unary.     *)
(***************************************************************************)
RECURSIVE EvalExpr(_), EvalTier(_, _), TierLoop(_, _, _), EvalUnary(_),
          EvalParen(_), EvalTerm(_), EvalIndex(_), IndexLoop(_, _), EvalNumArg(_),
          CallUser(_, _), BindArgs(_, _, _, _)

\* combine a left value with the result of evaluating the right operand
Apply(r, opres) == IF opres.e # "" THEN [r EXCEPT !.e = opres.e] ELSE [r EXCEPT !.v = opres.v]

\* The six binary tiers, loosest first.  Tier n's operands are tier n+1
\* expressions; tier 7 is the unary level.
TierOps(n) == CASE n = 1 -> {"or"} [] n = 2 -> {"and"} [] n = 3 -> EqualityOps
                [] n = 4 -> {"plus", "minus"} [] n = 5 -> {"multiply", "divide"} [] n = 6 -> {"caret"}
BinaryOp(op, a, b) ==
    CASE op = "or" -> LogicOr(a, b)
      [] op = "and" -> LogicAnd(a, b)
      [] op \in EqualityOps -> Compare(op, a, b)
      [] op = "caret" -> Power(a, b)
      [] OTHER -> Arith(op, a, b)

\* Nesting (parentheses, arguments, subscripts, function bodies) deeper than MAX_NEST is an
\* OUT OF MEMORY error, not a crash.
EvalExpr(I) ==
    IF I.nest = MAX_NEST THEN RErr(I, "out_of_memory_stack_overflow")
    ELSE LET r == EvalTier([I EXCEPT !.nest = @ + 1], 1) IN [r EXCEPT !.I.nest = I.nest]

\* one recursive-descent level: a left-folding loop over the tier's operators
EvalTier(I, n) ==
    IF n = 7 THEN EvalUnary(I)
    ELSE LET a == EvalTier(I, n + 1) IN IF Fail(a) THEN a ELSE TierLoop(a.I, a.v, n)
TierLoop(I, v, n) ==
    IF Peek(I).k \notin TierOps(n) THEN ROk(I, v)
    ELSE LET op == Peek(I).k
             b == EvalTier(Adv(I), n + 1)
         IN  IF Fail(b) THEN b
             ELSE LET c == Apply(b, BinaryOp(op, v, b.v)) IN IF Fail(c) THEN c ELSE TierLoop(c.I, c.v, n)

\* at most one unary operator, binding tighter than ^
EvalUnary(I) ==
    IF Peek(I).k \in {"plus", "minus", "not"}
    THEN LET op == Peek(I).k
             a == EvalParen(Adv(I))
         IN  IF Fail(a) THEN a ELSE Apply(a, Unary(op, a.v))
    ELSE EvalParen(I)

EvalParen(I) ==
    IF Peek(I).k = "leftparen"
    THEN LET a == EvalExpr(Adv(I))
         IN  IF Fail(a) THEN a
             ELSE LET x == Expect(a.I, "rightparen") IN IF Fail(x) THEN x ELSE ROk(x.I, a.v)
    ELSE EvalTerm(I)

\* "( expr , expr ... )" -> r.v.s carries the subscripts as a sequence of naturals
EvalIndex(I) ==
    LET x == Expect(I, "leftparen") IN IF Fail(x) THEN x ELSE IndexLoop(x.I, <<>>)
IndexLoop(I, acc) ==
    LET a == EvalExpr(I)
    IN  IF Fail(a) THEN a
        ELSE IF IsStr(a.v) THEN RErr(a.I, "type_mismatch")
        ELSE IF ~IsFin(NumOf(a.v)) THEN RErr(a.I, "unknown")
        ELSE LET i == NTrunc(NumOf(a.v))
             IN  IF i < 0 THEN RErr(a.I, "illegal_quantity")
                 ELSE IF Peek(a.I).k = "comma" THEN IndexLoop(Adv(a.I), Append(acc, i))
                 ELSE LET x == Expect(a.I, "rightparen")
                      IN  IF Fail(x) THEN x ELSE ROk(x.I, [VStr(Append(acc, i)) EXCEPT !.t = "idx"])

\* "( expr )" with a numeric argument
EvalNumArg(I) ==
    LET x == Expect(I, "leftparen")
    IN  IF Fail(x) THEN x
        ELSE LET a == EvalExpr(x.I)
             IN  IF Fail(a) THEN a
                 ELSE IF IsStr(a.v) THEN RErr(a.I, "type_mismatch")
                 ELSE LET y == Expect(a.I, "rightparen") IN IF Fail(y) THEN y ELSE ROk(y.I, a.v)

\* evaluate the arguments of a user function call into a binding map: [r, binds]
BindArgs(I, args, i, binds) ==
    IF i > Len(args) THEN [r |-> ROk(I, VNum(NZero)), binds |-> binds]
    ELSE LET a == EvalExpr(I)
         IN  IF Fail(a) THEN [r |-> a, binds |-> binds]
             ELSE IF ~KindMatches(args[i], a.v) THEN [r |-> RErr(a.I, "type_mismatch"), binds |-> binds]
             ELSE IF i < Len(args)
                  THEN LET x == Expect(a.I, "comma")
                       IN  IF Fail(x) THEN [r |-> x, binds |-> binds]
                           ELSE BindArgs(x.I, args, i + 1, Put(binds, args[i], a.v))
                  ELSE BindArgs(a.I, args, i + 1, Put(binds, args[i], a.v))

\* A user-defined function call: bind the arguments, push a frame, evaluate the
\* body where it was defined, pop the frame.  The frame never outlives the call:
\* when the body fails, the error keeps its location inside the body and the
\* frame is dropped (so a failing call leaves no binding behind).
CallUser(I, name) ==
    LET fn == I.fns[name]
        x == Expect(I, "leftparen")
    IN  IF Fail(x) THEN x
        ELSE LET b == BindArgs(x.I, fn.args, 1, <<>>)
             IN  IF Fail(b.r) THEN b.r
                 ELSE LET y == Expect(b.r.I, "rightparen")
                      IN  IF Fail(y) THEN y
                          ELSE IF Len(y.I.stack) = STACK_LIMIT THEN RErr(y.I, "out_of_memory_stack_overflow")
                          ELSE LET I2 == [y.I EXCEPT !.stack = Append(@, [ret |-> y.I.loc, binds |-> b.binds]),
                                                     !.loc = Loc(fn.line, fn.tok)]
                                   body == EvalExpr(I2)
                                   top == body.I.stack[Len(body.I.stack)]
                                   I3 == [body.I EXCEPT !.stack = SubSeq(@, 1, Len(@) - 1), !.loc = top.ret]
                               IN  IF Fail(body)
                                   THEN [I |-> I3, v |-> body.v, e |-> body.e,
                                         xl |-> IF body.xl.some THEN body.xl ELSE SomeLoc(PrevLoc(body.I))]
                                   ELSE ROk(I3, body.v)

EvalTerm(I) ==
    IF ~HasTok(I) THEN REnd(I)
    ELSE LET t == Peek(I)
             I1 == Adv(I)
         IN  CASE t.k = "stringliteral" -> ROk(I1, VStr(t.s))
               [] t.k = "numericliteral" -> ROk(I1, VNum(t.v))
               [] t.k = "symbol" ->
                    IF Peek(I1).k = "leftparen"
                    THEN IF t.s \in Builtins
                         THEN LET a == EvalNumArg(I1)
                              IN  IF Fail(a) THEN a
                                  ELSE IF t.s = B("ABS") THEN ROk(a.I, VNum(NAbs(NumOf(a.v))))
                                  ELSE IF t.s = B("INT") THEN ROk(a.I, VNum(NFloor(NumOf(a.v))))
                                  ELSE LET r == Rnd(a.I.seed, NumOf(a.v))
                                       IN  IF r.e # "" THEN RErr(a.I, r.e)
                                           ELSE ROk([a.I EXCEPT !.seed = r.seed], VNum(r.v))
                         ELSE IF t.s \in DOMAIN I1.fns THEN CallUser(I1, t.s)
                         ELSE LET ix == EvalIndex(I1)
                              IN  IF Fail(ix) THEN ix
                                  ELSE ArrayGet(WarnIf(ix.I, t.s \notin DOMAIN ix.I.arrays, "array"), t.s, ix.v.s)
                    ELSE LET f == FindInFrames(I1.stack, Len(I1.stack), t.s)
                         IN  IF f.found THEN ROk(I1, f.v)
                             ELSE ROk(WarnIf(I1, t.s \notin DOMAIN I1.vars, "var"),
                                      IF t.s \in DOMAIN I1.vars THEN I1.vars[t.s] ELSE DefaultFor(t.s))
               [] OTHER -> RErr(I1, "syntax_unexpected_token")

(***************************************************************************)
(* Statements.  Results reuse the R record (v unused).                     *)
(***************************************************************************)
\* [r, name, idx, hasIdx]: symbol with optional subscripts
ParseLValue(I) ==
    IF Peek(I).k # "symbol"
    THEN [r |-> RErr(IF HasTok(I) THEN Adv(I) ELSE I, "syntax_unexpected_token"), name |-> <<>>, idx |-> <<>>, hasIdx |-> FALSE]
    ELSE LET name == Peek(I).s
             I1 == Adv(I)
         IN  IF Peek(I1).k = "leftparen"
             THEN LET ix == EvalIndex(I1)
                  IN  [r |-> ix, name |-> name, idx |-> IF Fail(ix) THEN <<>> ELSE ix.v.s, hasIdx |-> TRUE]
             ELSE [r |-> ROk(I1, VNum(NZero)), name |-> name, idx |-> <<>>, hasIdx |-> FALSE]

Assign(I, lv, v) ==
    IF lv.hasIdx THEN ArraySet(WarnIf(I, lv.name \notin DOMAIN I.arrays, "array"), lv.name, lv.idx, v)
    ELSE VarSet(I, lv.name, v)

\* coerce_from_data_element: [e, v]
Coerce(name, item) ==
    IF EndsWithDollar(name)
    THEN (IF item.t = "s" THEN [e |-> "", v |-> VStr(item.s)]
          ELSE LET p == NPrint(item.v) IN IF p.ok THEN [e |-> "", v |-> VStr(p.s)] ELSE [e |-> "unknown", v |-> VStr(<<>>)])
    ELSE (IF item.t = "s" THEN [e |-> "data_type_mismatch", v |-> VNum(NZero)] ELSE [e |-> "", v |-> VNum(item.v)])

\* The next DATA element, creating the cursor (a snapshot of the program's DATA
\* chunks) on first use: [some, item, data]
NextData(I) ==
    LET chunks == IF I.data.some THEN I.data.chunks ELSE DataChunks(I)
        RECURSIVE Seek(_, _)
        Seek(c, i) == IF c >= Len(chunks) THEN [some |-> FALSE, item |-> ItemS(<<>>), data |-> [some |-> TRUE, chunks |-> chunks, chunk |-> c, item |-> i]]
                      ELSE IF i >= Len(chunks[c + 1].items) THEN Seek(c + 1, 0)
                      ELSE [some |-> TRUE, item |-> chunks[c + 1].items[i + 1], data |-> [some |-> TRUE, chunks |-> chunks, chunk |-> c, item |-> i + 1]]
    IN  IF I.data.some THEN Seek(I.data.chunk, I.data.item) ELSE Seek(0, 0)

DataLoc(I) ==
    IF I.data.some /\ I.data.chunk < Len(I.data.chunks)
    THEN SomeLoc(Loc(I.data.chunks[I.data.chunk + 1].line, I.data.chunks[I.data.chunk + 1].tok)) ELSE NoLoc

\* remove_loop_with_name: index of the topmost loop for sym, or 0
RECURSIVE LoopIndex(_, _, _)
LoopIndex(loops, i, sym) == IF i = 0 THEN 0 ELSE IF loops[i].sym = sym THEN i ELSE LoopIndex(loops, i - 1, sym)

\* An ELSE at the start of a statement that follows a single-statement THEN
\* clause (no colon in between) ends the line: the THEN statement has run --
\* possibly suspended by INPUT or left through GOSUB and resumed here.
RECURSIVE FollowsThen(_, _)
FollowsThen(toks, i) == \* scanning back from 1-based position i
    IF i < 1 THEN FALSE
    ELSE IF toks[i].k = "then" THEN TRUE
    ELSE IF toks[i].k = "colon" THEN FALSE
    ELSE FollowsThen(toks, i - 1)

GotoKey(v) == NatDigits(NTrunc(v))          \* `f64 as u64` of a non-negative exact value

RECURSIVE ExecStatement(_), ExecBody(_, _), StmtOrGoto(_), PrintLoop(_, _, _, _), ReadLoop(_),
          SkipToElse(_), DefArgs(_, _), SkipBody(_)

ExecGoto(I) == \* after GOTO / THEN / ELSE: the target must be a numeric literal
    IF Peek(I).k # "numericliteral" THEN RErr(IF HasTok(I) THEN Adv(I) ELSE I, "undefined_statement")
    ELSE LET v == Peek(I).v
             I1 == [Adv(I) EXCEPT !.bp = NoBp]
         IN  IF ~IsFin(v) THEN RErr(I1, "unknown")
             ELSE IF GotoKey(v) \in DOMAIN I1.prog THEN ROk([I1 EXCEPT !.loc = Loc(GotoKey(v), 0)], VNum(NZero))
             ELSE RErr(I1, "undefined_statement")

StmtOrGoto(I) == IF Peek(I).k = "numericliteral" THEN ExecGoto(I) ELSE ExecStatement(I)

\* break_at_current_location (host break and STOP share it)
BreakHere(I) ==
    LET I1 == Emit([I EXCEPT !.mode = "idle"], OutBreak(I.loc.line))
        I2 == [I1 EXCEPT !.bp = IF I.loc.line = IMM THEN NoBp ELSE [some |-> TRUE, line |-> I.loc.line, tok |-> I.loc.tok]]
    IN  SetImm(I2, <<>>)

PrintLoop(I, acc, unk, semi) ==
    LET t == Peek(I)
    IN  IF ~HasTok(I) \/ t.k \in {"colon", "else"}
        THEN ROk(Emit(I, OutPrint(IF semi THEN acc ELSE Append(acc, LF), unk)), VNum(NZero))
        ELSE IF t.k = "semicolon" THEN PrintLoop(Adv(I), acc, unk, TRUE)
        ELSE IF t.k = "comma" THEN PrintLoop(Adv(I), Append(acc, TAB), unk, FALSE)
        ELSE LET a == EvalExpr(I)
             IN  IF Fail(a) THEN a
                 ELSE IF IsStr(a.v) THEN PrintLoop(a.I, acc \o a.v.s, unk, FALSE)
                 ELSE LET p == NPrint(NumOf(a.v)) IN PrintLoop(a.I, acc \o p.s, unk \/ ~p.ok, FALSE)

ReadLoop(I) ==
    LET lv == ParseLValue(I)
    IN  IF Fail(lv.r) THEN lv.r
        ELSE LET nd == NextData(lv.r.I)
                 I1 == [lv.r.I EXCEPT !.data = nd.data]
             IN  IF ~nd.some THEN RErr(I1, "out_of_data")
                 ELSE LET c == Coerce(lv.name, nd.item)
                      IN  IF c.e # "" THEN RErr(I1, c.e)
                          ELSE LET a == Assign(I1, lv, c.v)
                               IN  IF Fail(a) THEN a
                                   ELSE IF Peek(a.I).k = "comma" THEN ReadLoop(Adv(a.I)) ELSE a

SkipToElse(I) == \* the false branch of IF
    IF ~HasTok(I) THEN ROk(I, VNum(NZero))
    ELSE LET t == Peek(I)
         IN  IF t.k = "colon" THEN ROk(DiscardRest(I), VNum(NZero))
             ELSE IF t.k = "else" THEN StmtOrGoto(Adv(I))
             ELSE SkipToElse(Adv(I))

DefArgs(I, acc) == \* [r, args]
    IF Peek(I).k # "symbol" THEN [r |-> RErr(IF HasTok(I) THEN Adv(I) ELSE I, "syntax_unexpected_token"), args |-> acc]
    ELSE LET acc2 == Append(acc, Peek(I).s)
             I1 == Adv(I)
         IN  IF Peek(I1).k = "comma" THEN DefArgs(Adv(I1), acc2)
             ELSE IF Peek(I1).k = "rightparen" THEN [r |-> ROk(Adv(I1), VNum(NZero)), args |-> acc2]
             ELSE [r |-> RErr(IF HasTok(I1) THEN Adv(I1) ELSE I1, "syntax_unexpected_token"), args |-> acc2]

SkipBody(I) == IF ~HasTok(I) THEN I ELSE IF Peek(I).k = "colon" THEN Adv(I) ELSE SkipBody(Adv(I))

AwaitInput(I, inputTok) == [I EXCEPT !.loc.tok = inputTok, !.mode = "awaiting"]

ExecInput(I, inputTok) ==
    IF ~I.input.some THEN ROk(AwaitInput(I, inputTok), VNum(NZero))
    ELSE LET pd == ParseData(I.input.text)
             leftover == pd.n < Len(I.input.text)
             I1 == [I EXCEPT !.input = NoInput]
             lv == ParseLValue(I1)
         IN  IF Fail(lv.r) THEN lv.r
             ELSE LET c == Coerce(lv.name, pd.items[1])
                  IN  IF c.e = "data_type_mismatch"
                      THEN ROk(AwaitInput(Emit(lv.r.I, Out("reenter")), inputTok), VNum(NZero))
                      ELSE IF c.e # "" THEN RErr(lv.r.I, c.e)
                      ELSE LET a == Assign(lv.r.I, lv, c.v)
                           IN  IF Fail(a) THEN a
                               ELSE IF Len(pd.items) > 1 \/ leftover THEN ROk(Emit(a.I, Out("extra")), VNum(NZero))
                               ELSE a

ExecFor(I) ==
    IF Peek(I).k # "symbol" THEN RErr(IF HasTok(I) THEN Adv(I) ELSE I, "syntax_unexpected_token")
    ELSE LET sym == Peek(I).s
             x1 == Expect(Adv(I), "equals")
         IN  IF Fail(x1) THEN x1
         ELSE LET from == EvalExpr(x1.I)
         IN  IF Fail(from) THEN from
         ELSE IF IsStr(from.v) THEN RErr(from.I, "type_mismatch")
         ELSE LET x2 == Expect(from.I, "to")
         IN  IF Fail(x2) THEN x2
         ELSE LET to == EvalExpr(x2.I)
         IN  IF Fail(to) THEN to
         ELSE IF IsStr(to.v) THEN RErr(to.I, "type_mismatch")
         ELSE LET hasStep == Peek(to.I).k = "step"
                  st == IF hasStep THEN EvalExpr(Adv(to.I)) ELSE ROk(to.I, VNum(NOne))
         IN  IF Fail(st) THEN st
         ELSE IF IsStr(st.v) THEN RErr(st.I, "type_mismatch")
         ELSE LET J == st.I
                  li == LoopIndex(J.loops, Len(J.loops), sym)
                  kept == IF li = 0 THEN J.loops ELSE SubSeq(J.loops, 1, li - 1)
              IN  IF Len(kept) = STACK_LIMIT THEN RErr([J EXCEPT !.loops = kept], "out_of_memory_stack_overflow")
                  ELSE VarSet([J EXCEPT !.loops = Append(kept, [sym |-> sym, loc |-> J.loc, to |-> NumOf(to.v), step |-> NumOf(st.v)])],
                              sym, from.v)

ExecNext(I) ==
    IF Peek(I).k # "symbol" THEN RErr(IF HasTok(I) THEN Adv(I) ELSE I, "syntax_unexpected_token")
    ELSE LET sym == Peek(I).s
             I1 == Adv(I)
             cur == IF sym \in DOMAIN I1.vars THEN I1.vars[sym] ELSE DefaultFor(sym)
             li == LoopIndex(I1.loops, Len(I1.loops), sym)
         IN  IF IsStr(cur) THEN RErr(I1, "type_mismatch")
             ELSE IF li = 0 THEN RErr(I1, "next_without_for")
             ELSE LET lp == I1.loops[li]
                      kept == SubSeq(I1.loops, 1, li - 1)
                      nv == NAdd(NumOf(cur), lp.step)
                  IN  IF ~IsFin(lp.step) \/ ~IsFin(nv) \/ ~IsFin(lp.to) THEN RErr(I1, "unknown")
                      ELSE LET cont == IF ~IsNeg(lp.step) \/ IsZero(lp.step) THEN NCmp(nv, lp.to) <= 0 ELSE NCmp(nv, lp.to) >= 0
                               I2 == IF cont THEN [I1 EXCEPT !.loops = Append(kept, lp), !.loc = lp.loc]
                                     ELSE [I1 EXCEPT !.loops = kept]
                           IN  VarSet(I2, sym, VNum(nv))

ExecDef(I) ==
    IF Peek(I).k # "symbol" THEN RErr(IF HasTok(I) THEN Adv(I) ELSE I, "syntax_unexpected_token")
    ELSE LET name == Peek(I).s
             x == Expect(Adv(I), "leftparen")
         IN  IF Fail(x) THEN x
             ELSE LET da == DefArgs(x.I, <<>>)
                  IN  IF Fail(da.r) THEN da.r
                      ELSE LET y == Expect(da.r.I, "equals")
                           IN  IF Fail(y) THEN y
                               ELSE IF y.I.loc.line = IMM THEN RErr(y.I, "illegal_direct")
                               ELSE ROk(SkipBody([y.I EXCEPT !.fns = Put(@, name, [args |-> da.args, line |-> y.I.loc.line, tok |-> y.I.loc.tok])]),
                                        VNum(NZero))

ExecIf(I) ==
    LET c == EvalExpr(I)
    IN  IF Fail(c) THEN c
        ELSE LET x == Expect(c.I, "then")
             IN  IF Fail(x) THEN x
                 ELSE LET t == Truth(c.v)
                      IN  IF t = "U" THEN RErr(x.I, "unknown")
                          ELSE IF t = "T"
                          THEN LET s == StmtOrGoto(x.I)
                               IN  IF Fail(s) THEN s
                                   ELSE IF Peek(s.I).k = "else" THEN ROk(DiscardRest(s.I), VNum(NZero)) ELSE s
                          ELSE SkipToElse(x.I)

ExecAssign(I, name) == \* after the symbol
    LET ix == IF Peek(I).k = "leftparen" THEN EvalIndex(I) ELSE ROk(I, VNum(NZero))
        hasIdx == Peek(I).k = "leftparen"
    IN  IF Fail(ix) THEN ix
        ELSE LET x == Expect(ix.I, "equals")
             IN  IF Fail(x) THEN x
                 ELSE LET v == EvalExpr(x.I)
                      IN  IF Fail(v) THEN v
                          ELSE Assign(v.I, [name |-> name, idx |-> IF hasIdx THEN ix.v.s ELSE <<>>, hasIdx |-> hasIdx], v.v)

ExecDim(I) ==
    LET lv == ParseLValue(I)
    IN  IF Fail(lv.r) THEN lv.r
        ELSE IF ~lv.hasIdx THEN lv.r
        ELSE IF lv.name \in DOMAIN lv.r.I.arrays THEN RErr(lv.r.I, "redimensioned_array")
        ELSE LET na == NewArray(lv.idx)
             IN  IF na.e # "" THEN RErr(lv.r.I, na.e)
                 ELSE ROk([lv.r.I EXCEPT !.arrays = Put(@, lv.name, na.arr)], VNum(NZero))

ExecGosub(I) ==
    IF Peek(I).k # "numericliteral" THEN RErr(IF HasTok(I) THEN Adv(I) ELSE I, "undefined_statement")
    ELSE LET I1 == Adv(I)
         IN  IF Len(I1.stack) = STACK_LIMIT THEN RErr(I1, "out_of_memory_stack_overflow")
             ELSE LET g == ExecGoto(I)
                  IN  IF Fail(g) THEN g
                      ELSE ROk([g.I EXCEPT !.stack = Append(@, [ret |-> I1.loc, binds |-> <<>>])], VNum(NZero))

\* evaluate_statement: optional trace record, then dispatch on the first token
ExecStatement(I) ==
    IF I.snest = MAX_NEST THEN RErr(I, "out_of_memory_stack_overflow")
    ELSE LET I0 == IF I.trace /\ I.loc.line # IMM THEN Emit([I EXCEPT !.snest = @ + 1], OutTrace(I.loc.line)) ELSE [I EXCEPT !.snest = @ + 1]
             r == IF ~HasTok(I0) THEN ROk(I0, VNum(NZero)) ELSE ExecBody(Adv(I0), Peek(I0))
         IN  [r EXCEPT !.I.snest = I.snest]

ExecBody(I, t) == \* I: the state after the first token t was consumed
    CASE t.k = "stop" -> ROk(BreakHere(I), VNum(NZero))
      [] t.k = "dim" -> ExecDim(I)
      [] t.k \in {"print", "questionmark"} -> PrintLoop(I, <<>>, FALSE, FALSE)
      [] t.k = "input" -> ExecInput(I, I.loc.tok - 1)
      [] t.k = "if" -> ExecIf(I)
      [] t.k = "goto" -> ExecGoto(I)
      [] t.k = "gosub" -> ExecGosub(I)
      [] t.k = "return" ->
            IF I.stack = <<>> THEN RErr([I EXCEPT !.bp = NoBp], "return_without_gosub")
            ELSE ROk([I EXCEPT !.bp = NoBp, !.loc = I.stack[Len(I.stack)].ret, !.stack = SubSeq(@, 1, Len(@) - 1)], VNum(NZero))
      [] t.k = "end" -> ROk(SetImm(I, <<>>), VNum(NZero))
      [] t.k = "for" -> ExecFor(I)
      [] t.k = "next" -> ExecNext(I)
      [] t.k = "restore" -> ROk([I EXCEPT !.data = NoData], VNum(NZero))
      [] t.k = "def" -> ExecDef(I)
      [] t.k = "read" -> ReadLoop(I)
      [] t.k \in {"remark", "colon", "data"} -> ROk(I, VNum(NZero))
      [] t.k = "let" ->
            IF Peek(I).k # "symbol" THEN RErr(IF HasTok(I) THEN Adv(I) ELSE I, "syntax_unexpected_token")
            ELSE ExecAssign(Adv(I), Peek(I).s)
      [] t.k = "symbol" -> ExecAssign(I, t.s)
      [] t.k = "else" ->
            IF FollowsThen(Toks(I), I.loc.tok - 1) THEN ROk(DiscardRest(I), VNum(NZero))
            ELSE RErr(I, "syntax_unexpected_token")
      [] OTHER -> RErr(I, "syntax_unexpected_token")

(***************************************************************************)
(* Turns.                                                                  *)
(***************************************************************************)
ToIdle(I) == [I EXCEPT !.mode = "idle"]

\* run_next_statement: exactly one statement, then advance line / go idle
RunNext(I) ==
    LET I0 == [I EXCEPT !.mode = "running"]
        r == IF HasTok(I0) THEN ExecStatement(I0) ELSE ROk(I0, VNum(NZero))
    IN  IF Fail(r) THEN r
        ELSE IF HasTok(r.I) THEN r
        ELSE IF r.I.loc.line # IMM /\ HasAfter(r.I, r.I.loc.line)
             THEN ROk([r.I EXCEPT !.loc = Loc(AfterKey(r.I, r.I.loc.line), 0)], VNum(NZero))
        ELSE ROk(ToIdle(SetImm(r.I, <<>>)), VNum(NZero))

\* reset_runtime_state
ResetRuntime(I) == SetImm([I EXCEPT !.bp = NoBp, !.data = NoData, !.fns = <<>>, !.stack = <<>>, !.loops = <<>>], <<>>)

\* populate_error_location + return to idle; takes the outputs out of the state
Finish(r) ==
    LET I == r.I
        xl == IF r.xl.some THEN r.xl
              ELSE IF r.e = "data_type_mismatch" THEN DataLoc(I)
              ELSE SomeLoc(PrevLoc(I))
    IN  IF r.e = "" THEN [I |-> [I EXCEPT !.out = <<>>], out |-> I.out, res |-> ResOk]
        ELSE [I |-> [ToIdle(I) EXCEPT !.out = <<>>], out |-> I.out, res |-> ResErr(r.e, xl)]

RECURSIVE ListLines(_, _)
ListLines(I, ks) ==
    IF ks = <<>> THEN I
    ELSE LET ll == ListLine(ks[1], I.prog[ks[1]])
         IN  ListLines(Emit(I, OutPrint(ll.s, ~ll.ok)), Tail(ks))

\* first word of the line (split on ASCII whitespace), ASCII-upper-cased; <<>> if none
FirstWord(text) ==
    LET a == SkipAsciiWs(text, 0)
        RECURSIVE WordEnd(_)
        WordEnd(i) == IF i < Len(text) /\ ~IsAsciiWs(text[i + 1]) THEN WordEnd(i + 1) ELSE i
    IN  UpperSeq(Slice(text, a, WordEnd(a)))
HasNonAscii(s) == \E i \in 1..Len(s) : s[i] >= 128

Commands == {B("RUN"), B("LIST"), B("NEW"), B("CONT"), B("TRACE"), B("NOTRACE")}
UnmodelledCommands == {B("INTERNALS"), B("STATS")}

RunCommand(I, w) ==
    CASE w = B("RUN") ->
            LET I1 == ResetRuntime([I EXCEPT !.vars = <<>>, !.arrays = <<>>, !.input = NoInput])
                I2 == IF HasFirst(I1) THEN [I1 EXCEPT !.loc = Loc(FirstKey(I1), 0)] ELSE I1
            IN  RunNext(I2)
      [] w = B("LIST") -> ROk(ListLines(I, I.keys), VNum(NZero))
      [] w = B("NEW") -> ROk([I EXCEPT !.mode = "new"], VNum(NZero))
      [] w = B("CONT") ->
            LET I1 == SetImm(I, <<>>)
            IN  IF ~I1.bp.some THEN RErr(I1, "cannot_continue")
                ELSE RunNext([I1 EXCEPT !.loc = Loc(I1.bp.line, I1.bp.tok), !.bp = NoBp])
      [] w = B("TRACE") -> ROk([I EXCEPT !.trace = TRUE], VNum(NZero))
      [] w = B("NOTRACE") -> ROk([I EXCEPT !.trace = FALSE], VNum(NZero))

\* The tokenizer, as an operator the bounded instances may replace by a table.
TokenizeLine(text, skip) == Tokenize(text, skip)

SubmitLine(I, text) ==
    LET I0 == SetImm(I, <<>>)
        w == FirstWord(text)
    IN  IF HasNonAscii(w) \/ w \in UnmodelledCommands THEN RErr(I0, "unknown")
        ELSE IF w \in Commands THEN RunCommand(I0, w)
        ELSE LET pl == ParseLineNumber(text)
                 lx == TokenizeLine(text, IF pl.some THEN pl.end ELSE 0)
             IN  IF lx.err # "" THEN RErr(I0, "syntax_tokenization_" \o lx.err)
                 ELSE IF pl.some
                 THEN ROk(ResetRuntime(SetLine(I0, pl.key, lx.toks)), VNum(NZero))
                 ELSE RunNext(SetImm(I0, lx.toks))

(***************************************************************************)
(* The host protocol.                                                      *)
(***************************************************************************)
CSubmit(text) == [k |-> "submit", text |-> text, seed |-> <<>>]
CContinue == [k |-> "continue", text |-> <<>>, seed |-> <<>>]
CProvide(text) == [k |-> "provide", text |-> text, seed |-> <<>>]
CBreak == [k |-> "break", text |-> <<>>, seed |-> <<>>]
CReplace == [k |-> "replace", text |-> <<>>, seed |-> <<>>]
CRandomize(seedDigits) == [k |-> "randomize", text |-> <<>>, seed |-> seedDigits]

Legal(I, c) ==
    CASE c.k = "submit" -> I.mode = "idle"
      [] c.k = "continue" -> I.mode = "running"
      [] c.k = "provide" -> I.mode = "awaiting"
      [] c.k = "break" -> I.mode \in {"running", "awaiting"}
      [] c.k = "replace" -> I.mode = "new"
      [] c.k = "randomize" -> TRUE

Step(I, c) ==
    CASE c.k = "submit" -> Finish(SubmitLine(I, c.text))
      [] c.k = "continue" -> Finish(RunNext(I))
      [] c.k = "provide" -> Finish(ROk([I EXCEPT !.input = [some |-> TRUE, text |-> c.text], !.mode = "running"], VNum(NZero)))
      [] c.k = "break" -> Finish(ROk(BreakHere(I), VNum(NZero)))
      [] c.k = "replace" -> Finish(ROk(Fresh, VNum(NZero)))
      [] c.k = "randomize" -> Finish(ROk([I EXCEPT !.seed = SeedOf(BNFromDigits(c.seed))], VNum(NZero)))

Unknown(r) == ~r.res.ok /\ r.res.kind = "unknown"
=============================================================================
