------------------------------- MODULE Lexer -------------------------------
(***************************************************************************)
(* From bytes to tokens: the line-number prefix, the whitespace-skipping   *)
(* "line cruncher", every token matcher in the order the tokenizer tries   *)
(* them, byte ranges, the three tokenization errors with their positions,  *)
(* the DATA / INPUT-reply item parser, and the canonical spelling of       *)
(* tokens used by LIST.                                                    *)
(*                                                                         *)
(* Indices are 0-based byte offsets, ranges half-open, as in the code.     *)
(***************************************************************************)
EXTENDS Num

(***************************************************************************)
(* Tokens.  Every token is a record of one shape.                          *)
(*   k      kind: "print", "symbol", "numericliteral", "data", ...         *)
(*   s      bytes of a symbol name / string literal / remark text          *)
(*   v      value of a numeric literal                                     *)
(*   items  items of a DATA token                                          *)
(* DATA items: [t |-> "s", s |-> bytes, v |-> NZero]                       *)
(*             [t |-> "n", s |-> <<>>,  v |-> Num]                         *)
(***************************************************************************)
Tk(k) == [k |-> k, s |-> <<>>, v |-> NZero, items |-> <<>>]
TkS(k, s) == [k |-> k, s |-> s, v |-> NZero, items |-> <<>>]
TkN(v) == [k |-> "numericliteral", s |-> <<>>, v |-> v, items |-> <<>>]
TkD(items) == [k |-> "data", s |-> <<>>, v |-> NZero, items |-> items]
NoTok == Tk("none")

ItemS(s) == [t |-> "s", s |-> s, v |-> NZero]
ItemN(v) == [t |-> "n", s |-> <<>>, v |-> v]

\* Keywords in the order chomp_any_keyword tries them.
Keywords == << <<"dim", B("DIM")>>, <<"let", B("LET")>>, <<"print", B("PRINT")>>,
               <<"input", B("INPUT")>>, <<"goto", B("GOTO")>>, <<"gosub", B("GOSUB")>>,
               <<"return", B("RETURN")>>, <<"if", B("IF")>>, <<"then", B("THEN")>>,
               <<"else", B("ELSE")>>, <<"and", B("AND")>>, <<"or", B("OR")>>,
               <<"not", B("NOT")>>, <<"end", B("END")>>, <<"stop", B("STOP")>>,
               <<"for", B("FOR")>>, <<"to", B("TO")>>, <<"next", B("NEXT")>>,
               <<"step", B("STEP")>>, <<"read", B("READ")>>, <<"restore", B("RESTORE")>>,
               <<"def", B("DEF")>> >>

KwREM == B("REM")
KwDATA == B("DATA")

(***************************************************************************)
(* Line number prefix (parse_line_number): leading ASCII whitespace, then  *)
(* a run of digits parsed as u64.  Result: [some, key, end] where key is   *)
(* the normalised decimal digit string (no leading zeros) -- line numbers  *)
(* up to 2^64-1 do not fit TLC integers -- and end the offset after the    *)
(* last digit.  Overflow of u64 means "not a line number".                 *)
(***************************************************************************)
U64MaxDigits == B("18446744073709551615")

\* Order on normalised digit strings = numeric order.
KeyLess(a, b) == Len(a) < Len(b) \/ (Len(a) = Len(b) /\ BytesLess(a, b))
KeyLeq(a, b) == a = b \/ KeyLess(a, b)

NormKey(digits) == LET z == StripLeadingZeros(digits) IN IF z = <<>> THEN <<48>> ELSE z

RECURSIVE SkipAsciiWs(_, _)
SkipAsciiWs(line, i) == IF i < Len(line) /\ IsAsciiWs(line[i + 1]) THEN SkipAsciiWs(line, i + 1) ELSE i

ParseLineNumber(line) ==
    LET a == SkipAsciiWs(line, 0)
        n == DigitRun(line, a + 1)
        key == NormKey(Slice(line, a, a + n))
    IN  IF n = 0 THEN [some |-> FALSE, key |-> <<>>, end |-> 0]
        ELSE IF KeyLess(U64MaxDigits, key) THEN [some |-> FALSE, key |-> <<>>, end |-> 0]
        ELSE [some |-> TRUE, key |-> key, end |-> a + n]

(***************************************************************************)
(* The line cruncher.                                                      *)
(***************************************************************************)
\* Offset of the first non-blank byte at or after i, or Len(line).
RECURSIVE NextNB(_, _)
NextNB(line, i) == IF i < Len(line) /\ IsBasicWs(line[i + 1]) THEN NextNB(line, i + 1) ELSE i

\* chomp_keyword: offset after the keyword if the crunched, upper-cased bytes
\* from i spell kw, else -1.
RECURSIVE KwFrom(_, _, _, _)
KwFrom(line, i, kw, k) ==
    LET j == NextNB(line, i)
    IN  IF j >= Len(line) THEN 0 - 1
        ELSE IF Upper(line[j + 1]) # kw[k] THEN 0 - 1
        ELSE IF k = Len(kw) THEN j + 1
        ELSE KwFrom(line, j + 1, kw, k + 1)

ChompKw(line, i, kw) == KwFrom(line, i, kw, 1)

\* chomp_any_keyword: [k, e] of the first keyword in order that matches; e = -1 if none.
RECURSIVE AnyKwFrom(_, _, _)
AnyKwFrom(line, i, n) ==
    IF n > Len(Keywords) THEN [k |-> "none", e |-> 0 - 1]
    ELSE LET e == ChompKw(line, i, Keywords[n][2])
         IN  IF e >= 0 THEN [k |-> Keywords[n][1], e |-> e] ELSE AnyKwFrom(line, i, n + 1)
AnyKw(line, i) == AnyKwFrom(line, i, 1)

(***************************************************************************)
(* DATA / INPUT-reply item parser (parse_data_until_colon).                *)
(***************************************************************************)
\* Length of the Unicode White_Space character starting at 1-based p, or 0.
WsLenAt(s, p) ==
    IF p > Len(s) THEN 0
    ELSE LET b == s[p]
             b2 == IF p + 1 <= Len(s) THEN s[p + 1] ELSE 0
             b3 == IF p + 2 <= Len(s) THEN s[p + 2] ELSE 0
         IN  IF b \in {9, 10, 11, 12, 13, 32} THEN 1
             ELSE IF b = 194 /\ b2 \in {133, 160} THEN 2
             ELSE IF b = 225 /\ b2 = 154 /\ b3 = 128 THEN 3
             ELSE IF b = 226 /\ b2 = 128 /\ (b3 \in 128..138 \/ b3 \in {168, 169, 175}) THEN 3
             ELSE IF b = 226 /\ b2 = 129 /\ b3 = 159 THEN 3
             ELSE IF b = 227 /\ b2 = 128 /\ b3 = 128 THEN 3
             ELSE 0
\* Length of the White_Space character ending at 1-based p, or 0.
WsLenEndingAt(s, p) ==
    IF p < 1 THEN 0
    ELSE IF WsLenAt(s, p) = 1 THEN 1
    ELSE IF p >= 2 /\ WsLenAt(s, p - 1) = 2 THEN 2
    ELSE IF p >= 3 /\ WsLenAt(s, p - 2) = 3 THEN 3
    ELSE 0

RECURSIVE TrimStart(_)
TrimStart(s) == LET w == WsLenAt(s, 1) IN IF w = 0 THEN s ELSE TrimStart(SubSeq(s, w + 1, Len(s)))
RECURSIVE TrimEnd(_)
TrimEnd(s) == LET w == WsLenEndingAt(s, Len(s)) IN IF w = 0 THEN s ELSE TrimEnd(SubSeq(s, 1, Len(s) - w))
Trim(s) == TrimEnd(TrimStart(s))
IsBlankText(s) == Trim(s) = <<>>

\* push_current_element
DataItemOf(cur, inQuotes) ==
    IF inQuotes THEN ItemS(cur)
    ELSE LET t == Trim(cur)
         IN  IF F64Syntax(t) THEN ItemN(F64Value(t)) ELSE ItemS(t)

\* Parser state: [q (in quotes), items, cur, n (bytes chomped), fin]
\* The final item is kept when it has content -- any byte inside an open quote,
\* a non-blank byte otherwise -- and the list is never left empty.  (Blank
\* text after the last item, e.g. before the terminating colon, is not an item:
\* whitespace around DATA items is insignificant.)
DataFinish(st) ==
    IF st.fin THEN st
    ELSE IF (st.q /\ Len(st.cur) > 0) \/ (~st.q /\ ~IsBlankText(st.cur)) \/ Len(st.items) = 0
         THEN [st EXCEPT !.items = Append(@, DataItemOf(st.cur, st.q)), !.cur = <<>>, !.fin = TRUE]
         ELSE [st EXCEPT !.fin = TRUE]

DataByte(st, b) ==
    LET st2 ==
        IF ~st.q THEN
            IF b = COLON THEN DataFinish(st)
            ELSE IF b = COMMA THEN
                (IF ~IsBlankText(st.cur)
                 THEN [st EXCEPT !.items = Append(@, DataItemOf(st.cur, FALSE)), !.cur = <<>>]
                 ELSE st)
            ELSE IF b = QUOTE THEN
                (IF IsBlankText(st.cur) THEN [st EXCEPT !.cur = <<>>, !.q = TRUE]
                 ELSE [st EXCEPT !.cur = Append(@, b)])
            ELSE [st EXCEPT !.cur = Append(@, b)]
        ELSE
            IF b = QUOTE THEN [st EXCEPT !.items = Append(@, DataItemOf(st.cur, TRUE)), !.cur = <<>>, !.q = FALSE]
            ELSE [st EXCEPT !.cur = Append(@, b)]
    IN  IF st2.fin THEN st2 ELSE [st2 EXCEPT !.n = @ + 1]

RECURSIVE DataRun(_, _, _)
DataRun(s, p, st) ==
    IF st.fin \/ p > Len(s) THEN st ELSE DataRun(s, p + 1, DataByte(st, s[p]))

\* [items, n]: the items and the number of bytes consumed (the colon is not consumed).
ParseData(s) ==
    LET st == DataFinish(DataRun(s, 1, [q |-> FALSE, items |-> <<>>, cur |-> <<>>, n |-> 0, fin |-> FALSE]))
    IN  [items |-> st.items, n |-> st.n]

(***************************************************************************)
(* Token matchers.  Each returns [hit, tok, e, err] : hit = the matcher    *)
(* applies; e = offset after the token; err = "" or the tokenization       *)
(* error kind with its position payload in [ea, eb].                       *)
(***************************************************************************)
Miss == [hit |-> FALSE, tok |-> NoTok, e |-> 0, err |-> "", ea |-> 0, eb |-> 0]
Hit(tok, e) == [hit |-> TRUE, tok |-> tok, e |-> e, err |-> "", ea |-> 0, eb |-> 0]
LexFail(kind, a, b) == [hit |-> TRUE, tok |-> NoTok, e |-> 0, err |-> kind, ea |-> a, eb |-> b]

OneCharKinds == [b \in {58, 59, 44, 63, 40, 41, 43, 45, 42, 47, 94, 61, 60, 62} |->
    CASE b = 58 -> "colon" [] b = 59 -> "semicolon" [] b = 44 -> "comma" [] b = 63 -> "questionmark"
      [] b = 40 -> "leftparen" [] b = 41 -> "rightparen" [] b = 43 -> "plus" [] b = 45 -> "minus"
      [] b = 42 -> "multiply" [] b = 47 -> "divide" [] b = 94 -> "caret" [] b = 61 -> "equals"
      [] b = 60 -> "lessthan" [] b = 62 -> "greaterthan"]

MatchOneOrTwo(line, i) ==
    LET j == NextNB(line, i)
    IN  IF j >= Len(line) \/ line[j + 1] \notin DOMAIN OneCharKinds THEN Miss
        ELSE LET k == OneCharKinds[line[j + 1]]
                 j2 == NextNB(line, j + 1)
                 c2 == IF j2 < Len(line) THEN line[j2 + 1] ELSE 0
             IN  IF k = "lessthan" /\ c2 = 62 THEN Hit(Tk("notequals"), j2 + 1)
                 ELSE IF k = "lessthan" /\ c2 = 61 THEN Hit(Tk("lessthanorequalto"), j2 + 1)
                 ELSE IF k = "greaterthan" /\ c2 = 61 THEN Hit(Tk("greaterthanorequalto"), j2 + 1)
                 ELSE Hit(Tk(k), j + 1)

RECURSIVE FindQuote(_, _)
FindQuote(line, i) == \* offset of the first quote at or after i, or -1
    IF i >= Len(line) THEN 0 - 1 ELSE IF line[i + 1] = QUOTE THEN i ELSE FindQuote(line, i + 1)

MatchString(line, i) ==
    IF line[i + 1] # QUOTE THEN Miss
    ELSE LET q == FindQuote(line, i + 1)
         IN  IF q < 0 THEN LexFail("unterminated_string", i, i)
             ELSE Hit(TkS("stringliteral", Slice(line, i + 1, q)), q + 1)

\* [digs, last]: crunched digits and dots from i, and the offset after the last of them.
RECURSIVE NumRun(_, _, _, _)
NumRun(line, i, digs, last) ==
    LET j == NextNB(line, i)
    IN  IF j < Len(line) /\ (IsDigit(line[j + 1]) \/ line[j + 1] = DOT)
        THEN NumRun(line, j + 1, Append(digs, line[j + 1]), j + 1)
        ELSE [digs |-> digs, last |-> last]

MatchNumber(line, i) ==
    LET r == NumRun(line, i, <<>>, 0 - 1)
    IN  IF r.last < 0 THEN Miss
        ELSE IF F64Syntax(r.digs) /\ ~IsInf(F64Value(r.digs)) THEN Hit(TkN(F64Value(r.digs)), r.last)
        ELSE LexFail("invalid_number", i, r.last)            \* malformed, or too large to be a number

MatchRemark(line, i) ==
    LET e == ChompKw(line, i, KwREM)
    IN  IF e < 0 THEN Miss ELSE Hit(TkS("remark", From(line, e)), Len(line))

MatchData(line, i) ==
    LET e == ChompKw(line, i, KwDATA)
    IN  IF e < 0 THEN Miss
        ELSE LET p == ParseData(From(line, e)) IN Hit(TkD(p.items), e + p.n)

\* chomp_symbol: [chars, e]
RECURSIVE SymRun(_, _, _)
SymRun(line, i, chars) ==
    LET j == NextNB(line, i)
    IN  IF j >= Len(line) THEN [chars |-> chars, e |-> i]
        ELSE LET c == line[j + 1]
                 valid == IF chars = <<>> THEN IsAlpha(c) ELSE (IsAlnum(c) \/ c = DOLLAR)
             IN  IF ~valid THEN [chars |-> chars, e |-> i]
                 ELSE IF c = DOLLAR THEN [chars |-> Append(chars, c), e |-> j + 1]
                 ELSE IF AnyKw(line, j + 1).e >= 0 THEN [chars |-> Append(chars, Upper(c)), e |-> j + 1]
                 ELSE SymRun(line, j + 1, Append(chars, Upper(c)))

MatchSymbol(line, i) ==
    LET r == SymRun(line, i, <<>>)
    IN  IF r.chars = <<>> THEN Miss ELSE Hit(TkS("symbol", r.chars), r.e)

\* chomp_next_token at a non-blank offset i.
NextToken(line, i) ==
    LET kw == AnyKw(line, i)
    IN  IF kw.e >= 0 THEN Hit(Tk(kw.k), kw.e)
        ELSE LET m1 == MatchOneOrTwo(line, i) IN IF m1.hit THEN m1
        ELSE LET m2 == MatchString(line, i) IN IF m2.hit THEN m2
        ELSE LET m3 == MatchNumber(line, i) IN IF m3.hit THEN m3
        ELSE LET m4 == MatchRemark(line, i) IN IF m4.hit THEN m4
        ELSE LET m5 == MatchData(line, i) IN IF m5.hit THEN m5
        ELSE LET m6 == MatchSymbol(line, i) IN IF m6.hit THEN m6
        ELSE LexFail("illegal_character", i, i)

(***************************************************************************)
(* Tokenize(line, skip) == [toks, ranges, err, ea, eb]                     *)
(*   toks / ranges  tokens produced (all of them, or those before the      *)
(*                  error); ranges[i] = <<start, end>>                     *)
(*   err            "" or "illegal_character" | "unterminated_string" |    *)
(*                  "invalid_number"; [ea, eb] the error's raw payload     *)
(***************************************************************************)
RECURSIVE LexFrom(_, _, _, _)
LexFrom(line, i, toks, ranges) ==
    LET a == NextNB(line, i)
    IN  IF a >= Len(line) THEN [toks |-> toks, ranges |-> ranges, err |-> "", ea |-> 0, eb |-> 0]
        ELSE LET m == NextToken(line, a)
             IN  IF m.err # "" THEN [toks |-> toks, ranges |-> ranges, err |-> m.err, ea |-> m.ea, eb |-> m.eb]
                 ELSE LexFrom(line, m.e, Append(toks, m.tok), Append(ranges, <<a, m.e>>))

Tokenize(line, skip) == LexFrom(line, skip, <<>>, <<>>)

\* The part of the line a tokenization error is about (never splitting a character).
ErrRange(lx, line) ==
    CASE lx.err = "illegal_character" -> <<lx.ea, lx.ea + Utf8Width(line[lx.ea + 1])>>
      [] lx.err = "unterminated_string" -> <<lx.ea, Len(line)>>
      [] lx.err = "invalid_number" -> <<lx.ea, lx.eb>>
      [] OTHER -> <<0, 0>>

(***************************************************************************)
(* Canonical spelling (Display) and LIST lines.  [ok, s]: ok = FALSE when  *)
(* the spelling contains a number the model does not print.                *)
(***************************************************************************)
KindSpelling == [k \in {"dim", "let", "print", "input", "goto", "gosub", "return", "colon",
                        "semicolon", "comma", "questionmark", "leftparen", "rightparen", "plus",
                        "minus", "multiply", "divide", "caret", "equals", "notequals", "lessthan",
                        "lessthanorequalto", "greaterthan", "greaterthanorequalto", "and", "or",
                        "not", "if", "then", "else", "end", "stop", "for", "to", "step", "next",
                        "read", "restore", "def"} |->
    CASE k = "dim" -> B("DIM") [] k = "let" -> B("LET") [] k = "print" -> B("PRINT")
      [] k = "input" -> B("INPUT") [] k = "goto" -> B("GOTO") [] k = "gosub" -> B("GOSUB")
      [] k = "return" -> B("RETURN") [] k = "colon" -> B(":") [] k = "semicolon" -> B(";")
      [] k = "comma" -> B(",") [] k = "questionmark" -> B("?") [] k = "leftparen" -> B("(")
      [] k = "rightparen" -> B(")") [] k = "plus" -> B("+") [] k = "minus" -> B("-")
      [] k = "multiply" -> B("*") [] k = "divide" -> B("/") [] k = "caret" -> B("^")
      [] k = "equals" -> B("=") [] k = "notequals" -> B("<>") [] k = "lessthan" -> B("<")
      [] k = "lessthanorequalto" -> B("<=") [] k = "greaterthan" -> B(">")
      [] k = "greaterthanorequalto" -> B(">=") [] k = "and" -> B("AND") [] k = "or" -> B("OR")
      [] k = "not" -> B("NOT") [] k = "if" -> B("IF") [] k = "then" -> B("THEN")
      [] k = "else" -> B("ELSE") [] k = "end" -> B("END") [] k = "stop" -> B("STOP")
      [] k = "for" -> B("FOR") [] k = "to" -> B("TO") [] k = "step" -> B("STEP")
      [] k = "next" -> B("NEXT") [] k = "read" -> B("READ") [] k = "restore" -> B("RESTORE")
      [] k = "def" -> B("DEF")]

\* A string item is spelled quoted, unless it contains a quote itself (such an
\* item can only have been written unquoted, and only reads back unquoted).
HasQuote(s) == \E i \in 1..Len(s) : s[i] = QUOTE
ItemSpelling(it) ==
    IF it.t = "s"
    THEN (IF HasQuote(it.s) THEN [ok |-> TRUE, s |-> it.s]
          ELSE [ok |-> TRUE, s |-> <<QUOTE>> \o it.s \o <<QUOTE>>])
    ELSE NPrint(it.v)

RECURSIVE ItemsSpelling(_)
ItemsSpelling(items) ==
    IF items = <<>> THEN [ok |-> TRUE, s |-> <<>>]
    ELSE LET h == ItemSpelling(items[1])
             t == ItemsSpelling(Tail(items))
         IN  [ok |-> h.ok /\ t.ok,
              s |-> IF Len(items) = 1 THEN h.s ELSE h.s \o B(", ") \o t.s]

TokenSpelling(t) ==
    CASE t.k = "remark" -> [ok |-> TRUE, s |-> KwREM \o t.s]
      [] t.k = "symbol" -> [ok |-> TRUE, s |-> t.s]
      [] t.k = "stringliteral" -> [ok |-> TRUE, s |-> <<QUOTE>> \o t.s \o <<QUOTE>>]
      [] t.k = "numericliteral" -> NPrint(t.v)
      [] t.k = "data" -> LET i == ItemsSpelling(t.items) IN [ok |-> i.ok, s |-> B("DATA ") \o i.s]
      [] OTHER -> [ok |-> TRUE, s |-> KindSpelling[t.k]]

\* A numeric literal directly after a symbol can only have been written with a
\* leading dot (`X.5`): digits would have joined the symbol, and blanks do not
\* separate.  Its listing keeps the dot form, so that it reads back as written.
DotForm(v) ==
    LET p == NPrint(v)
    IN  IF p.ok /\ Len(p.s) >= 2 /\ p.s[1] = 48 /\ p.s[2] = DOT THEN [ok |-> TRUE, s |-> Tail(p.s)]
        ELSE IF p.ok /\ p.s = <<48>> THEN [ok |-> TRUE, s |-> <<DOT, 48>>]          \* `X.0`
        ELSE p

RECURSIVE TokensSpellingFrom(_, _)
TokensSpellingFrom(toks, prev) ==
    IF toks = <<>> THEN [ok |-> TRUE, s |-> <<>>]
    ELSE LET h == IF toks[1].k = "numericliteral" /\ prev.k = "symbol" /\ prev.s[Len(prev.s)] # DOLLAR
                  THEN DotForm(toks[1].v) ELSE TokenSpelling(toks[1])
             t == TokensSpellingFrom(Tail(toks), toks[1])
         IN  [ok |-> h.ok /\ t.ok,
              s |-> IF Len(toks) = 1 THEN h.s ELSE h.s \o <<SP>> \o t.s]
TokensSpelling(toks) == TokensSpellingFrom(toks, NoTok)

\* The error display (source line + caret) joins the plain spelling of every token: no dot form there.
RECURSIVE TokensSpellingPlain(_)
TokensSpellingPlain(toks) ==
    IF toks = <<>> THEN [ok |-> TRUE, s |-> <<>>]
    ELSE LET h == TokenSpelling(toks[1])
             t == TokensSpellingPlain(Tail(toks))
         IN  [ok |-> h.ok /\ t.ok, s |-> IF Len(toks) = 1 THEN h.s ELSE h.s \o <<SP>> \o t.s]

\* One LIST line: "<number> <tokens joined by blanks>\n"
ListLine(key, toks) ==
    LET t == TokensSpelling(toks) IN [ok |-> t.ok, s |-> key \o <<SP>> \o t.s \o <<LF>>]

(***************************************************************************)
(* Token equality modulo opaque numbers (used by conformance comparisons   *)
(* and by the model's own round-trip properties).                          *)
(***************************************************************************)
NumAgrees(a, b) == a.t = "o" \/ b.t = "o" \/ a = b
ItemAgrees(a, b) == a.t = b.t /\ a.s = b.s /\ NumAgrees(a.v, b.v)
TokAgrees(a, b) ==
    /\ a.k = b.k /\ a.s = b.s /\ NumAgrees(a.v, b.v)
    /\ Len(a.items) = Len(b.items)
    /\ \A i \in 1..Len(a.items) : ItemAgrees(a.items[i], b.items[i])
ToksAgree(x, y) == Len(x) = Len(y) /\ \A i \in 1..Len(x) : TokAgrees(x[i], y[i])
=============================================================================
