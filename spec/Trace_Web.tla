------------------------------- MODULE Trace_Web -------------------------------
(***************************************************************************)
(* Implementation -> specification for C19.  One event per page event      *)
(* handled by the transliterated page script over the real JsInterpreter:  *)
(*    first   TRUE on the first event of a page's life (load or start)     *)
(*    e       the event [k, text]                                          *)
(*    obs     what the page shows afterwards: shown records, adapter       *)
(*            state, pending timers, whether input is enabled, trap text   *)
(*    unfaithful   number of differences between adapter and mirror core   *)
(***************************************************************************)
EXTENDS Web, Json, IOUtils, TLC

Rec == ndJsonDeserialize(IOEnv.TRACE)
VARIABLES l, page, lost
vars == <<l, page, lost>>

ShownSame(m, r) ==
    /\ m.t = r.t /\ m.line = r.line
    /\ (m.t \in {"print", "error"} => (m.unk \/ m.text = r.text))          \* an error's text is its source line and caret
    /\ (m.t \in {"error", "warning"} => m.what = r.what)

ApplyEvent(P, e) ==
    CASE e.k = "load" -> [ok |-> TRUE, P |-> PageLoad(NewPage, e.text)]
      [] e.k = "start" -> [ok |-> TRUE, P |-> PageStart(NewPage)]
      [] e.k = "submit" -> [ok |-> CanSubmit(P), P |-> PageSubmit(P, e.text)]
      [] e.k = "break" -> [ok |-> CanBreak(P), P |-> PageBreak(P)]
      [] e.k = "tick" -> [ok |-> CanTick(P), P |-> PageTick(P)]

Init == l = 0 /\ page = NewPage /\ lost = TRUE
Next ==
    /\ l < Len(Rec)
    /\ l' = l + 1
    /\ LET ev == Rec[l + 1]
       IN  IF lost /\ ~ev.first THEN UNCHANGED <<page, lost>>
           ELSE LET a == ApplyEvent(page, ev.e)
                    NP == a.P
                    unknown == NP.W.trap = "unknown" \/ NP.W.unk
                    st == IF NP.W.trap # "" THEN "trapped" ELSE WState(NP.W)
                    why == SelectSeq(<<
                        IF ev.obs.trap # "" THEN "C19:trap" ELSE "",
                        IF ev.unfaithful > 0 THEN "C19:unfaithful" ELSE "",
                        IF ~unknown /\ ~a.ok THEN "C19:protocol" ELSE "",
                        IF ~unknown /\ a.ok /\ ev.obs.trap = "" /\ ~NoTrap(NP) THEN "MODEL:trap" ELSE "",
                        IF ~unknown /\ a.ok /\ ev.obs.trap = "" /\ NoTrap(NP) /\
                           ~(Len(NP.shown) = Len(ev.obs.shown) /\ \A i \in 1..Len(NP.shown) : ShownSame(NP.shown[i], ev.obs.shown[i])) THEN "C19:shown" ELSE "",
                        IF ~unknown /\ a.ok /\ ev.obs.trap = "" /\ NoTrap(NP) /\ (st # ev.obs.state \/ NP.timers # ev.obs.timers \/ NP.inputOn # ev.obs.input_on) THEN "C19:state" ELSE "" >>,
                        LAMBDA x : x # "")
                IN  /\ why # <<>> => PrintT(<<"VERDICT", ToJson([i |-> l + 1, why |-> why])>>)
                    /\ page' = NP
                    /\ lost' = (why # <<>> \/ unknown)
Spec == Init /\ [][Next]_vars
Consumed == IF TLCGet("stats").diameter - 1 = Len(Rec) THEN TRUE
            ELSE PrintT(<<"UNCONSUMED", TLCGet("stats").diameter - 1, Len(Rec)>>) /\ FALSE
=============================================================================
