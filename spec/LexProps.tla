----------------------------- MODULE LexProps ------------------------------
(***************************************************************************)
(* Properties C12, C13, C14 stated over the Lexer model, for one line of   *)
(* statement text.  MC_Lex checks them on every enumerated line; the same  *)
(* operators judge lines recorded from the implementation (Trace_Lex).     *)
(***************************************************************************)
EXTENDS Lexer

(***************************************************************************)
(* Protected regions: string literals, REM text, the inside of DATA items. *)
(***************************************************************************)
\* Spans [s, e) of the items of a DATA text (offsets relative to the text):
\* quoted items from the opening quote to after the closing quote, unquoted
\* items from their first to after their last non-blank byte.
\* Scanner state: [q, qs, f, l, spans, fin]
SpanEmit(st) == IF st.f >= 0 THEN [st EXCEPT !.spans = Append(@, <<st.f, st.l>>), !.f = 0 - 1] ELSE st

SpanByte(st, b, p) ==
    IF ~st.q THEN
        IF b = COLON THEN [SpanEmit(st) EXCEPT !.fin = TRUE]
        ELSE IF b = COMMA THEN SpanEmit(st)
        ELSE IF b = QUOTE THEN
            (IF st.f < 0 THEN [st EXCEPT !.q = TRUE, !.qs = p]
             ELSE [st EXCEPT !.l = p + 1])
        ELSE IF b \in {9, 10, 11, 12, 13, 32} THEN st
        ELSE [st EXCEPT !.f = IF @ < 0 THEN p ELSE @, !.l = p + 1]
    ELSE
        IF b = QUOTE THEN [st EXCEPT !.q = FALSE, !.spans = Append(@, <<st.qs, p + 1>>), !.f = 0 - 1]
        ELSE st

RECURSIVE SpanRun(_, _, _)
SpanRun(s, p, st) ==
    IF st.fin THEN st
    ELSE IF p >= Len(s) THEN (IF st.q THEN [st EXCEPT !.spans = Append(@, <<st.qs, Len(s) + 1>>)] ELSE SpanEmit(st))   \* an open quote protects everything after it
    ELSE SpanRun(s, p + 1, SpanByte(st, s[p + 1], p))

DataSpans(s) == SpanRun(s, 0, [q |-> FALSE, qs |-> 0, f |-> 0 - 1, l |-> 0, spans |-> <<>>, fin |-> FALSE]).spans

\* Inserting a byte at offset p (between bytes p-1 and p) lands inside token i's protected text.
InsInside(line, lx, i, p) ==
    LET t == lx.toks[i]
        a == lx.ranges[i][1]
        b == lx.ranges[i][2]
    IN  CASE t.k = "stringliteral" -> a < p /\ p < b
          [] t.k = "remark" -> p >= ChompKw(line, a, KwREM)
          [] t.k = "data" ->
                LET ke == ChompKw(line, a, KwDATA)
                    sp == DataSpans(From(line, ke))
                IN  \E j \in 1..Len(sp) : ke + sp[j][1] < p /\ p < ke + sp[j][2]
          [] OTHER -> FALSE

\* The byte at offset p belongs to token i's protected text.
ModInside(line, lx, i, p) ==
    LET t == lx.toks[i]
        a == lx.ranges[i][1]
        b == lx.ranges[i][2]
    IN  CASE t.k = "stringliteral" -> a <= p /\ p < b
          [] t.k = "remark" -> p >= ChompKw(line, a, KwREM)
          [] t.k = "data" ->
                LET ke == ChompKw(line, a, KwDATA)
                    sp == DataSpans(From(line, ke))
                IN  \E j \in 1..Len(sp) : ke + sp[j][1] <= p /\ p < ke + sp[j][2]
          [] OTHER -> FALSE

InsPositions(line, lx) ==
    {p \in 0..Len(line) :
        /\ IsCharBoundary(line, p)
        /\ (lx.err = "" \/ p <= lx.ea)
        /\ \A i \in 1..Len(lx.toks) : ~InsInside(line, lx, i, p)}

ModPositions(line, lx) ==
    {p \in 0..(Len(line) - 1) :
        /\ (lx.err = "" \/ p < lx.ea)
        /\ \A i \in 1..Len(lx.toks) : ~ModInside(line, lx, i, p)}

DelPositions(line, lx) == {p \in ModPositions(line, lx) : line[p + 1] \in {SP, TAB}}
FlipPositions(line, lx) == {p \in ModPositions(line, lx) : IsAlpha(line[p + 1])}

InsertAt(line, p, b) == SubSeq(line, 1, p) \o <<b>> \o SubSeq(line, p + 1, Len(line))
DeleteAt(line, p) == SubSeq(line, 1, p) \o SubSeq(line, p + 2, Len(line))
FlipAt(line, p) == [line EXCEPT ![p + 1] = IF IsUpperAlpha(@) THEN @ + 32 ELSE @ - 32]

SameMeaning(lx, ly) == lx.toks = ly.toks /\ lx.err = ly.err

(***************************************************************************)
(* C12: spacing and letter case outside literal text never change meaning. *)
(***************************************************************************)
C12Holds(line) ==
    LET lx == Tokenize(line, 0)
    IN  /\ \A p \in InsPositions(line, lx) :
              /\ SameMeaning(lx, Tokenize(InsertAt(line, p, SP), 0))
              /\ SameMeaning(lx, Tokenize(InsertAt(line, p, TAB), 0))
        /\ \A p \in DelPositions(line, lx) : SameMeaning(lx, Tokenize(DeleteAt(line, p), 0))
        /\ \A p \in FlipPositions(line, lx) : SameMeaning(lx, Tokenize(FlipAt(line, p), 0))

(***************************************************************************)
(* C13: every token's reported range is exact.  Stated over an observed    *)
(* tokenization `lx` of `line` (the model's own, or one recorded from the  *)
(* implementation), with `Retok` the tokenizer used for re-tokenization.   *)
(***************************************************************************)
RangesWellFormed(line, lx) ==
    /\ Len(lx.ranges) = Len(lx.toks)
    /\ \A i \in 1..Len(lx.ranges) :
          LET a == lx.ranges[i][1]
              b == lx.ranges[i][2]
          IN  /\ 0 <= a /\ a < b /\ b <= Len(line)
              /\ IsCharBoundary(line, a) /\ IsCharBoundary(line, b)
              /\ ~IsBasicWs(line[a + 1])
              /\ (lx.toks[i].k \notin {"remark", "data"} => ~IsBasicWs(line[b]))
              /\ (i > 1 => lx.ranges[i - 1][2] <= a)

\* "the reported error position lies within the line"
ErrWellFormed(line, lx) == lx.err # "" => (0 <= lx.ea /\ lx.ea < Len(line))

C13Holds(line) ==
    LET lx == Tokenize(line, 0)
    IN  /\ RangesWellFormed(line, lx)
        /\ \A i \in 1..Len(lx.toks) :
              LET re == Tokenize(Slice(line, lx.ranges[i][1], lx.ranges[i][2]), 0)
              IN  re.err = "" /\ re.toks = <<lx.toks[i]>>
        /\ ErrWellFormed(line, lx)
        /\ (lx.err # "" =>
              LET pre == Tokenize(Slice(line, 0, lx.ea), 0)
              IN  pre.err = "" /\ pre.toks = lx.toks)

(***************************************************************************)
(* C14: LIST output reloads to the same program.  At line level: the       *)
(* listing of a stored line re-tokenizes to the same tokens and lists      *)
(* identically.  (The interpreter depends on a program only through its    *)
(* tokens, so token equality gives identical behaviour under RUN and an    *)
(* identical READ sequence.)                                               *)
(***************************************************************************)
K10 == <<49, 48>>
ListingBody(ll) == SubSeq(ll, 1, Len(ll) - 1)         \* without the trailing LF

C14Applies(line) == LET lx == Tokenize(line, 0) IN lx.err = "" /\ lx.toks # <<>> /\ ListLine(K10, lx.toks).ok

C14Holds(line) ==
    LET lx == Tokenize(line, 0)
        ll == ListLine(K10, lx.toks)
    IN  (lx.err = "" /\ lx.toks # <<>> /\ ll.ok) =>
            LET body == ListingBody(ll.s)
                pl == ParseLineNumber(body)
                re == Tokenize(body, pl.end)
            IN  /\ pl.some /\ pl.key = K10
                /\ re.err = ""
                /\ re.toks = lx.toks
                /\ ListLine(K10, re.toks).s = ll.s
=============================================================================
