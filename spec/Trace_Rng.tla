------------------------------ MODULE Trace_Rng ------------------------------
(***************************************************************************)
(* Implementation -> specification for C18.  Each event is one RND(x) call *)
(* made on the real generator from a given state:                          *)
(*    before   seed before the call (decimal digits; any 64-bit value, as  *)
(*             given to randomize)                                         *)
(*    sign     the argument's name (Rng.tla ArgNames): 1, 0, -1, 0.5, -0.5,  *)
(*             -0, 2^-20, 10^6, 1.5, NaN, +inf, -inf                       *)
(*    err      the call returned an error                                  *)
(*    num      result * 2^33 as decimal digits ("" if not an integer)      *)
(*    after    generator state after the call (decimal digits)             *)
(*    lt1      the result was >= 0 and < 1                                 *)
(***************************************************************************)
EXTENDS Rng, TLC, Json, IOUtils

Rec == ndJsonDeserialize(IOEnv.TRACE)
VARIABLES l
vars == <<l>>

Judge(ev) ==
    LET s0 == SeedOf(BNFromDigits(ev.before))
        r == Rnd(s0, ArgOf(ev.sign))
        reasons == <<
            IF (r.e # "") # ev.err THEN "C18:error" ELSE "",
            IF BNDigits(r.seed) # ev.after THEN "C18:state" ELSE "",
            IF r.e = "" /\ ~ev.err /\ BNDigits(r.seed) # ev.num THEN "C18:value" ELSE "",
            IF ~ev.err /\ ~ev.lt1 THEN "C18:range" ELSE "",
            IF ~SeedInRange(r.seed) THEN "MODEL:range" ELSE "" >>
    IN  SelectSeq(reasons, LAMBDA x : x # "")

Init == l = 0
Next == /\ l < Len(Rec)
        /\ l' = l + 1
        /\ LET why == Judge(Rec[l + 1])
           IN  why # <<>> => PrintT(<<"VERDICT", ToJson([i |-> l + 1, why |-> why])>>)
Spec == Init /\ [][Next]_vars
Consumed == IF TLCGet("stats").diameter - 1 = Len(Rec) THEN TRUE
            ELSE PrintT(<<"UNCONSUMED", TLCGet("stats").diameter - 1, Len(Rec)>>) /\ FALSE
=============================================================================
