------------------------------- MODULE MC_Lsp -------------------------------
(***************************************************************************)
(* C20: every sequence of didOpen / didChange / semanticTokens requests up *)
(* to MaxReqs over two documents and a set of texts (the shapes of C05     *)
(* plus non-ASCII strings and comments before tokens, and astral-plane     *)
(* characters that are two UTF-16 units).  TLC checks C20Holds on every    *)
(* text a document ever has, and prints one row per transition (request    *)
(* path + the reply the model predicts) for the harness to replay against  *)
(* the real `abasic-lsp` process.                                          *)
(***************************************************************************)
EXTENDS Lsp, Json

CONSTANTS MaxReqs, EmitRows

NL == <<LF>>
E_ACUTE == <<195, 169>>
SMILE == <<240, 159, 152, 138>>
DocTexts == { <<>>,
              B("10 X = 1") \o NL \o B("10"),
              B("10 PRINT 1 +") \o NL \o B("10 PRINT \""),
              B("10 PRINT \"") \o E_ACUTE \o B("\" + 1"),
              B("10 REM ") \o SMILE \o NL \o B("20 PRINT \"") \o SMILE \o B("\";X") \o NL \o B("30 ") \o E_ACUTE,
              B("PRINT 1") \o NL \o NL \o B("20 GOTO 99") \o <<CR>> \o NL \o B("30 A$ = 1"),
              B("10 DATA ") \o E_ACUTE \o B(", \"") \o SMILE \o B("\": PRINT \"") \o E_ACUTE \o B("\" - 1"),
              B("10 FOR I = 1 TO 2: NEXT I") \o NL \o B("20 DEF F(X) = X: PRINT F(Y)") \o NL \o B("30 A = 1.2.3") }
Uris == {"u1", "u2"}

VARIABLES docs, hist
vars == <<docs, hist>>
\* Histories are merged when they lead to the same documents by the same KINDS of requests on the same
\* URIs (texts may differ): a server that keeps something per request kind (a cache filled by a
\* tokens request, cleared by a change) is driven through each shape of history separately.
LspView == <<docs, [i \in 1..Len(hist) |-> <<hist[i].k, hist[i].uri>>]>>

Req(k, uri, text) == [k |-> k, uri |-> uri, text |-> text]
Do(req) ==
    LET r == LspStep(docs, req)
    IN  /\ docs' = r.docs
        /\ hist' = Append(hist, req)
        /\ (EmitRows => PrintT(<<"ROW", ToJson([reqs |-> hist', reply |-> [k |-> r.reply.k, toks |-> r.reply.toks,
                                   diags |-> r.reply.diags]])>>))

Init == docs = <<>> /\ hist = <<>>
Next == /\ Len(hist) < MaxReqs
        /\ \/ \E u \in Uris, t \in DocTexts : Do(Req("open", u, t))          \* also re-opening an open document
           \/ \E u \in Uris, t \in DocTexts : u \in DOMAIN docs /\ Do(Req("change", u, t))
           \/ \E u \in Uris : Do(Req("tokens", u, <<>>))

C20 == \A u \in DOMAIN docs : C20Holds(docs[u])
=============================================================================
