---------------------------- MODULE AnalyzerProps ----------------------------
(***************************************************************************)
(* C05 stated over the Analyzer model: analysis yields one token list per  *)
(* file line, every diagnostic maps to an in-bounds, character-aligned     *)
(* range on the file line it names, token ranges are ordered and disjoint. *)
(***************************************************************************)
EXTENDS Analyzer

AllMsgs(an) == {an.msgs[i] : i \in 1..Len(an.msgs)} \cup an.symmsgs

MsgWellFormed(an, m) ==
    LET s == MapToSource(an, m)
    IN  /\ s.some
        /\ s.fline = m.fline /\ s.fline >= 0 /\ s.fline < Len(an.lines)
        /\ LET line == an.lines[s.fline + 1]
           IN  /\ 0 <= s.a /\ s.a <= s.b /\ s.b <= Len(line)
               /\ IsCharBoundary(line, s.a) /\ IsCharBoundary(line, s.b)

TokensWellFormed(an) ==
    \A i \in 1..Len(an.infos) :
        LET ts == LineTokens(an.infos[i])
        IN  \A j \in 1..Len(ts) : ts[j].a < ts[j].b /\ ts[j].b <= Len(an.lines[i]) /\ (j > 1 => ts[j - 1].b <= ts[j].a)

C05Holds(text) == LET an == Analyze(text)
       IN  /\ Len(an.infos) = Len(an.lines)
           /\ \A m \in AllMsgs(an) : MsgWellFormed(an, m)
           /\ TokensWellFormed(an)

RowMsg(an, m) == LET s == MapToSource(an, m) IN [k |-> m.k, fline |-> m.fline, err |-> m.err, some |-> s.some, a |-> s.a, b |-> s.b]
SetToSeqBy(S) == LET RECURSIVE F(_) F(T) == IF T = {} THEN <<>> ELSE LET x == CHOOSE y \in T : TRUE IN <<x>> \o F(T \ {x}) IN F(S)
=============================================================================
