------------------------------- MODULE Trace_Lsp -------------------------------
(***************************************************************************)
(* Implementation -> specification for C20.  One event per request sent to *)
(* the real `abasic-lsp` process:  k ("reset" = a new server process,      *)
(* "open", "change", "tokens"), uri, text, and the reply: diags (bag of    *)
(* [line, a, b, sev]), toks (the wire data), err (an error response).      *)
(***************************************************************************)
EXTENDS Lsp, Json, IOUtils, TLC

Rec == ndJsonDeserialize(IOEnv.TRACE)
VARIABLES l, docs
vars == <<l, docs>>

Count(s, x) == Cardinality({i \in 1..Len(s) : s[i] = x})
BagEq(a, b) == Len(a) = Len(b) /\ \A i \in 1..Len(a) : Count(a, a[i]) = Count(b, a[i])
Diag(d) == [line |-> d.line, a |-> d.a, b |-> d.b, sev |-> d.sev]

Init == l = 0 /\ docs = <<>>
Next ==
    /\ l < Len(Rec)
    /\ l' = l + 1
    /\ LET ev == Rec[l + 1]
       IN  IF ev.k = "reset" THEN docs' = <<>>
           ELSE LET r == LspStep(docs, [k |-> ev.k, uri |-> ev.uri, text |-> ev.text])
                    why == SelectSeq(<<
                        IF ev.k # "tokens" /\ ~C20Holds(ev.text) THEN "MODEL:C20" ELSE "",
                        IF ev.k # "tokens" /\ ~BagEq(r.reply.diags, [i \in 1..Len(ev.diags) |-> Diag(ev.diags[i])]) THEN "C20:diagnostics" ELSE "",
                        IF ev.k = "tokens" /\ (r.reply.k = "error") # ev.err THEN "C20:tokens_error" ELSE "",
                        IF ev.k = "tokens" /\ r.reply.k = "tokens" /\ ~ev.err /\ r.reply.toks # ev.toks THEN "C20:tokens" ELSE "" >>, LAMBDA x : x # "")
                IN  /\ why # <<>> => PrintT(<<"VERDICT", ToJson([i |-> l + 1, why |-> why])>>)
                    /\ docs' = r.docs
Spec == Init /\ [][Next]_vars
Consumed == IF TLCGet("stats").diameter - 1 = Len(Rec) THEN TRUE
            ELSE PrintT(<<"UNCONSUMED", TLCGet("stats").diameter - 1, Len(Rec)>>) /\ FALSE
=============================================================================
