------------------------------- MODULE RngInd -------------------------------
(***************************************************************************)
(* C18, unbounded: the generator's state stays in 0 .. 2^33 - 1 for EVERY  *)
(* state and every 64-bit (indeed every integer) seed -- not a sample.     *)
(* IndInv is inductive: Init => IndInv, and IndInv /\ Next => IndInv'.     *)
(* Checked by Apalache over unbounded integers.  With "a natural below     *)
(* 2^53 converts to f64 exactly and division by 2^33 is exact" this gives  *)
(* RND in [0, 1) for all states.                                           *)
(***************************************************************************)
EXTENDS Integers

VARIABLE
    \* @type: Int;
    seed

A == 1664525
C == 1013904223
M == 8589934592

Init == seed = 0

Advance == seed' = (A * seed + C) % M            \* RND(x), x > 0
Repeat == seed' = seed                            \* RND(0), RND(x) with x < 0 (error)
Randomize == \E s \in Nat : seed' = s % M         \* randomize(any seed)

Next == Advance \/ Repeat \/ Randomize

IndInv == seed >= 0 /\ seed < M
IndInit == seed \in Int /\ IndInv
=============================================================================
