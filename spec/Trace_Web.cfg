SPECIFICATION Spec
CONSTANT LoaderChecksError = TRUE
CONSTANT LoaderSkipsBlank = TRUE
CONSTANT LoaderSkipsUnnumbered = TRUE
POSTCONDITION Consumed
CHECK_DEADLOCK FALSE
