------------------------------ MODULE Conform ------------------------------
(***************************************************************************)
(* The projection of the interpreter record that both conformance          *)
(* directions use, and what "the implementation agrees with the model"     *)
(* means field by field.  SnapOf(I) has exactly the shape of the snapshot  *)
(* the harness logs after every host call (maps become sequences sorted    *)
(* by key bytes, line numbers are digit strings).  Numbers the model       *)
(* declines to predict (Opaque) agree with any number.                     *)
(***************************************************************************)
EXTENDS Abasic

RECURSIVE SortBytes(_)
SortBytes(S) == IF S = {} THEN <<>>
                ELSE LET m == CHOOSE x \in S : \A y \in S : x = y \/ BytesLess(x, y) IN <<m>> \o SortBytes(S \ {m})
RECURSIVE SortNats(_)
SortNats(S) == IF S = {} THEN <<>> ELSE LET m == CHOOSE x \in S : \A y \in S : x <= y IN <<m>> \o SortNats(S \ {m})

MapSeq(f) == LET ks == SortBytes(DOMAIN f) IN [i \in 1..Len(ks) |-> [k |-> ks[i], v |-> f[ks[i]]]]
CellSeq(cells) == LET ks == SortNats(DOMAIN cells) IN [i \in 1..Len(ks) |-> [i |-> ks[i], v |-> cells[ks[i]]]]

SnapOf(I) ==
    [ mode |-> I.mode,
      loc |-> I.loc,
      bp |-> I.bp,
      stack |-> [i \in 1..Len(I.stack) |-> [ret |-> I.stack[i].ret, binds |-> MapSeq(I.stack[i].binds)]],
      loops |-> I.loops,
      data |-> [some |-> I.data.some, chunk |-> I.data.chunk, item |-> I.data.item],
      fns |-> LET ks == SortBytes(DOMAIN I.fns)
              IN [i \in 1..Len(ks) |-> [k |-> ks[i], args |-> I.fns[ks[i]].args, line |-> I.fns[ks[i]].line, tok |-> I.fns[ks[i]].tok]],
      vars |-> MapSeq(I.vars),
      arrays |-> LET ks == SortBytes(DOMAIN I.arrays)
                 IN [i \in 1..Len(ks) |-> [k |-> ks[i], dims |-> I.arrays[ks[i]].dims, cells |-> CellSeq(I.arrays[ks[i]].cells)]],
      input |-> I.input,
      seed |-> BNDigits(I.seed),
      trace |-> I.trace, warn |-> I.warn,
      keys |-> I.keys ]

ProgSeq(I) == [i \in 1..Len(I.keys) |-> [k |-> I.keys[i], toks |-> I.prog[I.keys[i]]]]

(***************************************************************************)
(* Agreement: m is the model's value, r the recorded one.                  *)
(***************************************************************************)
ValAgrees(m, r) == IF m.t = "o" THEN r.t # "s" ELSE (m.t = r.t /\ m.n = r.n /\ m.d = r.d /\ m.s = r.s)
NumAgreesR(m, r) == m.t = "o" \/ (m.t = r.t /\ m.n = r.n /\ m.d = r.d)
PairsAgree(m, r) == Len(m) = Len(r) /\ \A i \in 1..Len(m) : m[i].k = r[i].k /\ ValAgrees(m[i].v, r[i].v)
LocEq(a, b) == a.line = b.line /\ a.tok = b.tok

StackAgrees(m, r) ==
    Len(m) = Len(r) /\ \A i \in 1..Len(m) : LocEq(m[i].ret, r[i].ret) /\ PairsAgree(m[i].binds, r[i].binds)
LoopsAgree(m, r) ==
    Len(m) = Len(r) /\ \A i \in 1..Len(m) :
        m[i].sym = r[i].sym /\ LocEq(m[i].loc, r[i].loc) /\ NumAgreesR(m[i].to, r[i].to) /\ NumAgreesR(m[i].step, r[i].step)
FnsAgree(m, r) ==
    Len(m) = Len(r) /\ \A i \in 1..Len(m) :
        m[i].k = r[i].k /\ m[i].args = r[i].args /\ m[i].line = r[i].line /\ m[i].tok = r[i].tok
ArraysAgree(m, r) ==
    Len(m) = Len(r) /\ \A i \in 1..Len(m) :
        /\ m[i].k = r[i].k /\ m[i].dims = r[i].dims
        \* cells: the recorded non-default cells; a model cell holding Opaque may be absent (it may be the default)
        /\ \A j \in 1..Len(r[i].cells) :
              \E q \in 1..Len(m[i].cells) : m[i].cells[q].i = r[i].cells[j].i /\ ValAgrees(m[i].cells[q].v, r[i].cells[j].v)
        /\ \A q \in 1..Len(m[i].cells) :
              m[i].cells[q].v.t = "o" \/ \E j \in 1..Len(r[i].cells) : r[i].cells[j].i = m[i].cells[q].i
BpEq(m, r) == m.some = r.some /\ (m.some => (m.line = r.line /\ m.tok = r.tok))
\* The abstract cursor is the position of the next item READ takes: "no cursor yet" and "at the
\* first item of the first DATA statement" are the same position.
DataPos(x) == IF x.some THEN <<x.chunk, x.item>> ELSE <<0, 0>>
DataEq(m, r) == DataPos(m) = DataPos(r)
InputEq(m, r) == m.some = r.some /\ (m.some => m.text = r.text)

\* A model map f (name -> value) against a recorded sorted pair list r.
MapAgrees(f, r) ==
    /\ Cardinality(DOMAIN f) = Len(r)
    /\ \A i \in 1..Len(r) : r[i].k \in DOMAIN f /\ ValAgrees(f[r[i].k], r[i].v)
CellsAgree(cells, r) ==
    /\ \A j \in 1..Len(r) : r[j].i \in DOMAIN cells /\ ValAgrees(cells[r[j].i], r[j].v)
    /\ \A q \in DOMAIN cells : cells[q].t = "o" \/ \E j \in 1..Len(r) : r[j].i = q

\* names of the snapshot fields on which the model state I and the recorded snapshot r disagree
SnapDiff(I, r) ==
    SelectSeq(<< IF I.mode # r.mode THEN "mode" ELSE "",
                 IF ~LocEq(I.loc, r.loc) THEN "loc" ELSE "",
                 IF ~BpEq(I.bp, r.bp) THEN "bp" ELSE "",
                 IF ~(Len(I.stack) = Len(r.stack) /\ \A i \in 1..Len(r.stack) :
                        LocEq(I.stack[i].ret, r.stack[i].ret) /\ MapAgrees(I.stack[i].binds, r.stack[i].binds)) THEN "stack" ELSE "",
                 IF ~LoopsAgree(I.loops, r.loops) THEN "loops" ELSE "",
                 IF ~DataEq(I.data, r.data) THEN "data" ELSE "",
                 IF ~(Cardinality(DOMAIN I.fns) = Len(r.fns) /\ \A i \in 1..Len(r.fns) :
                        /\ r.fns[i].k \in DOMAIN I.fns
                        /\ LET f == I.fns[r.fns[i].k] IN f.args = r.fns[i].args /\ f.line = r.fns[i].line /\ f.tok = r.fns[i].tok) THEN "fns" ELSE "",
                 IF ~MapAgrees(I.vars, r.vars) THEN "vars" ELSE "",
                 IF ~(Cardinality(DOMAIN I.arrays) = Len(r.arrays) /\ \A i \in 1..Len(r.arrays) :
                        /\ r.arrays[i].k \in DOMAIN I.arrays
                        /\ LET a == I.arrays[r.arrays[i].k] IN a.dims = r.arrays[i].dims /\ CellsAgree(a.cells, r.arrays[i].cells)) THEN "arrays" ELSE "",
                 IF ~InputEq(I.input, r.input) THEN "input" ELSE "",
                 IF BNDigits(I.seed) # r.seed THEN "seed" ELSE "",
                 IF I.trace # r.trace \/ I.warn # r.warn THEN "flags" ELSE "",
                 IF I.keys # r.keys THEN "keys" ELSE "" >>, LAMBDA x : x # "")

(***************************************************************************)
(* The error caret (C01: "the error can be rendered as the offending       *)
(* source line plus a caret"): get_line_with_pointer_caret.  For an error  *)
(* with a location on a non-empty line: the line's canonical spelling and  *)
(* a caret under the offending token; for a tokenization error: the        *)
(* submitted text and carets under the offending bytes.  [ok, lines]:      *)
(* ok = FALSE when the spelling contains a number the model does not print.*)
(***************************************************************************)
RECURSIVE SpacesBefore(_, _)
SpacesBefore(toks, n) == IF n = 0 THEN 0 ELSE SpacesBefore(toks, n - 1) + Len(TokenSpelling(toks[n]).s) + 1
Repeat(b, n) == [i \in 1..n |-> b]

CaretLines(I, res, text) ==
    LET located == res.hl /\ (res.line = IMM \/ res.line \in DOMAIN I.prog)
        toks == IF located THEN TokensOf(I, res.line) ELSE <<>>
    IN  IF toks # <<>>
        THEN LET sp == TokensSpellingPlain(toks)
                 n == IF res.tok < Len(toks) THEN res.tok ELSE Len(toks)
             IN  [ok |-> sp.ok, lines |-> <<sp.s, Repeat(SP, SpacesBefore(toks, n)) \o <<94>>>>]
        ELSE IF Len(res.kind) > 20 /\ SubSeq(res.kind, 1, 20) = "syntax_tokenization_"
        THEN LET pl == ParseLineNumber(text)
                 lx == Tokenize(text, IF pl.some THEN pl.end ELSE 0)
                 r == ErrRange(lx, text)
             IN  [ok |-> TRUE, lines |-> <<text, Repeat(SP, r[1]) \o Repeat(94, r[2] - r[1])>>]
        ELSE [ok |-> TRUE, lines |-> <<>>]

OutAgrees(m, r) ==
    /\ m.t = r.t /\ m.line = r.line /\ m.what = r.what
    /\ (m.unk \/ m.text = r.text)
OutsDiff(m, r) ==
    IF Len(m) # Len(r) THEN <<"out.count">>
    ELSE SelectSeq(<< IF \E i \in 1..Len(m) : m[i].t # r[i].t THEN "out.kind" ELSE "",
                      IF \E i \in 1..Len(m) : m[i].t = r[i].t /\ (m[i].line # r[i].line \/ m[i].what # r[i].what) THEN "out.line" ELSE "",
                      IF \E i \in 1..Len(m) : m[i].t = r[i].t /\ ~m[i].unk /\ m[i].text # r[i].text THEN "out.text" ELSE "" >>,
                   LAMBDA x : x # "")
ResDiff(m, r) ==
    SelectSeq(<< IF m.ok # r.ok THEN "res.ok" ELSE "",
                 IF m.ok = r.ok /\ m.kind # r.kind THEN "res.kind" ELSE "",
                 IF m.ok = r.ok /\ m.kind = r.kind /\ (m.hl # r.hl \/ (m.hl /\ (m.line # r.line \/ m.tok # r.tok))) THEN "res.loc" ELSE "" >>,
              LAMBDA x : x # "")
=============================================================================
