------------------------------ MODULE MC_Kernels ------------------------------
(***************************************************************************)
(* A catalogue of small programs ("kernels") chosen so that every          *)
(* statement kind, both IF forms, nested FOR, NEXT of an outer loop, GOSUB *)
(* in THEN / ELSE, recursion to the frame cap, READ / RESTORE inside FOR,  *)
(* DEF with dynamic scoping, 1-3 dimensional arrays, STOP, INPUT in every  *)
(* syntactic position, runtime failures and a non-terminating loop all     *)
(* occur.  The catalogue is an enumeration seed: TLC explores every host   *)
(* schedule over it -- RUN, then at every turn boundary optionally a break *)
(* followed by inspections, edits, probes or CONT -- within the budget.    *)
(* Continue and Provide are free; every Submit and Break costs 1.          *)
(***************************************************************************)
EXTENDS MC_Session, Kernels, Analyzer

\* C06, forward direction, over every execution of a kernel the static checker accepts
\* (replies range over ReplySet): no run fails with a syntax error, a type mismatch or an
\* undefined line.
CheckerAccepts(s) == ProgramErrors(Load(Start, s.lines)) = <<>>
BadRunKind(kind) == kind \in {"type_mismatch", "undefined_statement"} \/ (Len(kind) >= 6 /\ SubSeq(kind, 1, 6) = "syntax")
C06Forward == (CheckerAccepts(start) /\ ~last.ok) => ~BadRunKind(last.kind)

FreeRunCost(c) == IF c.k \in {"continue", "provide"} THEN 0 ELSE 1
=============================================================================
