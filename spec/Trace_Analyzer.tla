---------------------------- MODULE Trace_Analyzer ----------------------------
(***************************************************************************)
(* Implementation -> specification for the static analyzer (C05, and the   *)
(* analyzer half of C06 / C20).  One event per analysed file:              *)
(*    text       the file (bytes)                                          *)
(*    panicked   analysis did not return                                   *)
(*    msgs       messages of the file pass and the static pass, in order:  *)
(*               [k, fline, err, some, a, b]  (a, b: the mapped range)     *)
(*    symmsgs    the symbol warnings (any order)                           *)
(*    ntok       number of token lists returned                            *)
(***************************************************************************)
EXTENDS AnalyzerProps, Json, IOUtils, TLC

Rec == ndJsonDeserialize(IOEnv.TRACE)
VARIABLES l
vars == <<l>>

SameMsg(m, r) == m.k = r.k /\ m.fline = r.fline /\ m.err = r.err /\ m.some = r.some /\ (m.some => (m.a = r.a /\ m.b = r.b))

Judge(ev) ==
    LET an == Analyze(ev.text)
        mm == [i \in 1..Len(an.msgs) |-> RowMsg(an, an.msgs[i])]
        ms == {RowMsg(an, m) : m \in an.symmsgs}
        unknown == \E i \in 1..Len(mm) : mm[i].err = "unknown"
        reasons == <<
            IF ~C05Holds(ev.text) THEN "MODEL:C05" ELSE "",
            IF ev.panicked THEN "C05:panic" ELSE "",
            IF ~ev.panicked /\ ev.ntok # Len(an.lines) THEN "C05:token_lists" ELSE "",
            IF ~ev.panicked /\ ~unknown /\ ~(Len(mm) = Len(ev.msgs) /\ \A i \in 1..Len(mm) : SameMsg(mm[i], ev.msgs[i])) THEN "ANALYZER:messages" ELSE "",
            IF ~ev.panicked /\ ~unknown /\ ~(/\ Len(ev.symmsgs) = Cardinality(ms)
                                             /\ \A i \in 1..Len(ev.symmsgs) : \E m \in ms : SameMsg(m, ev.symmsgs[i])) THEN "ANALYZER:symbols" ELSE "" >>
    IN  SelectSeq(reasons, LAMBDA x : x # "")

Init == l = 0
Next == /\ l < Len(Rec)
        /\ l' = l + 1
        /\ LET why == Judge(Rec[l + 1])
           IN  why # <<>> => PrintT(<<"VERDICT", ToJson([i |-> l + 1, why |-> why])>>)
Spec == Init /\ [][Next]_vars
Consumed == IF TLCGet("stats").diameter - 1 = Len(Rec) THEN TRUE
            ELSE PrintT(<<"UNCONSUMED", TLCGet("stats").diameter - 1, Len(Rec)>>) /\ FALSE
=============================================================================
