------------------------------- MODULE MC_Lex -------------------------------
(***************************************************************************)
(* Bounded instance for C12 / C13 / C14: every line of at most MaxLex      *)
(* lexemes over the alphabet below.  TLC checks the three properties on    *)
(* the model for every such line, and prints one table row per line        *)
(* (line |-> model tokenization, perturbation positions, listing) that the *)
(* replayer runs through the real tokenizer.                               *)
(***************************************************************************)
EXTENDS LexProps, TLC, Json

CONSTANT MaxLex, Emit

Lexemes == { B("PRINT"), B("GO"), B("TO"), B("GOSUB"), B("IF"), B("THEN"), B("FOR"),
             B("OR"), B("NOT"), B("SC"), B("E"), B("x"), B("1"), B("5"), B("0"), B("."), B("\""),
             B("<"), B(">"), B("="), B(":"), B(","), B("$"), B(" "), B("+"), <<195, 169>>,
             B("REM"), B("DATA"), B("data "), B("("), B("x1"), B("\"\","),
             <<92, 9, 239, 184, 143, 7>>,
             B("\"-1E3\","),
             B("I") \o <<230, 151, 165>>, B("STO") \o <<208, 144>> }     \* `I` + a character whose first byte is F with bits 7 and 5 set; `STO` + one whose first byte is P with bit 7 set      \* a quoted DATA item that would be a number without its quotes      \* backslash, TAB, U+FE0F, BEL: text that only means something inside strings, REM and DATA       \* `"",` : an explicitly empty DATA item followed by another

\* Numerals of hundreds of digits (C14): the model's boundary between the largest
\* number and "too large to be a number" is 2^1024 - 2^970, as in IEEE rounding.
Nines(k) == [i \in 1..k |-> 57]
ASSUME /\ Tokenize(F64Limit, 0).err = "invalid_number"
       /\ Tokenize(Nines(309), 0).err = "invalid_number"
       /\ Tokenize(<<49>> \o Zeros(309), 0).err = "invalid_number"
       /\ Tokenize(Nines(308), 0).err = ""
       /\ Tokenize(<<49>> \o Zeros(308), 0).err = ""
       /\ Tokenize(SubSeq(F64Limit, 1, 308) \o <<49>>, 0).err = ""
       /\ Tokenize(B("X.") \o Zeros(340) \o <<49>>, 0).toks[2].v = NZero
       /\ ListLine(K10, Tokenize(B("X.") \o Zeros(340) \o <<49>>, 0).toks).s = B("10 X .0") \o <<LF>>

VARIABLES line, n
vars == <<line, n>>
LineView == line

\* DATA statements by grammar rather than by lexeme soup: two items of every kind (numeric, word,
\* quoted, empty, explicitly empty, quoted text that looks numeric, a quote inside a word, an open
\* quote, padded, exponent form, nan) around every separator spelling, with every kind of tail.
DItems == { <<194, 160>> \o B("\"a\""), <<11>> \o B("x"),      \* a no-break space before a quote, a vertical tab before a word: blanks to `trim`, not to ASCII tests
            B("1"), B("x"), B("\"a\""), B("\"\""), <<>>, B("\"-1\""), B("a\"b"), B("\"a"), B(" x y "), B("-1E3"), B("nan") }
DSeps == { B(","), B(" , "), <<44, 9>> }
DPosts == { <<>>, B(":PRINT"), B(" :REM"), B(" ") }
DataLines == { B("DATA") \o sp \o a \o sep \o b \o post : sp \in {<<>>, B(" ")}, a \in DItems, b \in DItems, sep \in DSeps, post \in DPosts }

Init == \/ line = <<>> /\ n = 0
        \/ line \in DataLines /\ n = MaxLex
Next == /\ n < MaxLex
        /\ \E x \in Lexemes : line' = line \o x
        /\ n' = n + 1

SetToSeq(S) == LET RECURSIVE F(_) F(T) == IF T = {} THEN <<>> ELSE LET m == CHOOSE x \in T : \A y \in T : x <= y IN <<m>> \o F(T \ {m}) IN F(S)

Row ==
    LET lx == Tokenize(line, 0)
        ll == ListLine(K10, lx.toks)
    IN  [line |-> line, toks |-> lx.toks, ranges |-> lx.ranges, err |-> lx.err, ea |-> lx.ea, eb |-> lx.eb,
         ins |-> SetToSeq(InsPositions(line, lx)),
         del |-> SetToSeq(DelPositions(line, lx)),
         flip |-> SetToSeq(FlipPositions(line, lx)),
         listok |-> ll.ok /\ lx.err = "" /\ lx.toks # <<>>,
         list |-> ll.s]

C12 == C12Holds(line)
C13 == C13Holds(line)
C14 == C14Holds(line)
EmitRow == Emit => PrintT(<<"ROW", ToJson(Row)>>)
=============================================================================
