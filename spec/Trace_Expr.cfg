SPECIFICATION TSpec
POSTCONDITION Consumed
CHECK_DEADLOCK FALSE
