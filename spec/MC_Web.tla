------------------------------- MODULE MC_Web -------------------------------
(***************************************************************************)
(* C19: the Web adapter is a faithful, trap-free wrapper under the page's  *)
(* protocol.  Every sequence of page events -- an optional program file    *)
(* loaded at start-up, submitted lines and replies, break requests, timer  *)
(* ticks -- up to a budget, over six program texts (clean, with an         *)
(* untokenizable line, failing at run time, awaiting INPUT, never ending,  *)
(* empty) and nine submission texts.  Invariant NoTrap: no adapter         *)
(* assertion fails and get_state never sees the new-interpreter state.     *)
(* Each transition is printed as a row (events so far + predicted display  *)
(* and adapter state) which the harness replays on the real JsInterpreter  *)
(* through a transliteration of the page handlers.                         *)
(***************************************************************************)
EXTENDS Web, Json

CONSTANTS MaxEvents, EmitRows

Programs == { B("10 PRINT \"HI\"") \o <<LF>> \o B("20 X=X+1:PRINT X"),
              B("10 PRINT 1") \o <<LF>> \o B("20 C% = 1") \o <<LF>> \o B("30 PRINT 3"),
              B("10 PRINT 1") \o <<LF>> \o B("20 PRINT 1/0"),
              B("10 INPUT A") \o <<LF>> \o B("20 PRINT A*2"),
              B("10 I=I+1") \o <<LF>> \o B("20 GOTO 10"),
              <<>>,
              B("REM unnumbered") \o <<LF>> \o <<LF>> \o B("10 STOP:PRINT \"S\"") }
Texts == { B("NEW"), B("RUN"), B("CONT"), B("15 PRINT 7"), B("PRINT 1/0"), B("5"), B("abc"), B("\""), B("PRINT 2:PRINT 3"),
           B("  \""), B(" X = 1..2"), B("TRACE") }          \* indented lines that do not tokenize: the caret must still point at the right column

\* `pre` remembers WHAT was submitted before the latest NEW (as a set).  The model forgets all of it
\* at NEW -- which is the property -- so without `pre` in the view TLC would merge every history
\* that ends in NEW and continue from a single representative; with it, each distinct past is
\* continued separately, so that an adapter which carries something over NEW (a flag, a variable,
\* the program) is driven to show it.
VARIABLES page, hist, pre, newcmd
vars == <<page, hist, pre, newcmd>>
PageView == <<page, Len(hist), pre, newcmd>>

Ev(k, text) == [k |-> k, text |-> text]

Display(P) == [shown |-> P.shown, state |-> IF P.W.trap # "" THEN "trapped" ELSE IF WStateTraps(P.W) THEN "new" ELSE WState(P.W),
               trap |-> P.W.trap, timers |-> P.timers, input_on |-> P.inputOn, full |-> P.full]

Do(e, newPage) == /\ page' = newPage
             /\ hist' = Append(hist, e)
             /\ LET isNew == e.k = "submit" /\ e.text = B("NEW") /\ page.W.trap = "" /\ WState(page.W) = "idle"     \* the NEW command (not a reply to INPUT)
                IN  /\ pre' = (IF isNew THEN {hist[i].text : i \in 1..Len(hist)} ELSE pre)
                    /\ newcmd' = isNew
             /\ (EmitRows => PrintT(<<"ROW", ToJson([events |-> hist', pred |-> Display(newPage)])>>))

Init == page = NewPage /\ hist = <<>> /\ pre = {} /\ newcmd = FALSE
Next ==
    /\ Len(hist) < MaxEvents
    /\ page.W.trap = ""
    /\ \/ (hist = <<>> /\ \E t \in Programs : Do(Ev("load", t), PageLoad(page, t)))
       \/ (hist = <<>> /\ Do(Ev("start", <<>>), PageStart(page)))
       \/ (hist # <<>> /\ CanSubmit(page) /\ \E t \in Texts : Do(Ev("submit", t), PageSubmit(page, t)))
       \/ (hist # <<>> /\ CanBreak(page) /\ Do(Ev("break", <<>>), PageBreak(page)))
       \/ (hist # <<>> /\ CanTick(page) /\ Do(Ev("tick", <<>>), PageTick(page)))

C19NoTrap == NoTrap(page)
\* NEW yields an interpreter indistinguishable from a freshly created one
NewIsFresh == (newcmd /\ page.W.trap = "" /\ ~page.W.latch.some) => page.W.I = Fresh
=============================================================================
