-------------------------------- MODULE Web --------------------------------
(***************************************************************************)
(* The Web front end.                                                      *)
(*                                                                         *)
(* Adapter (abasic-web/src/lib.rs, JsInterpreter): wraps the core          *)
(* interpreter; keeps an ERROR LATCH that is set when an evaluation fails, *)
(* (with the source line and caret as rendered at that moment),           *)
(* cleared only by take_latest_error, and ASSERTED empty on entry to       *)
(* start_evaluating / continue_evaluating; swaps in a fresh interpreter    *)
(* when the core requests it (NEW); get_state panics if it ever sees the   *)
(* transient new-interpreter state.  A failed assertion or a panic is a    *)
(* trap: it kills the page.                                                *)
(*                                                                         *)
(* Page (abasic-web/ts/main.ts): four handlers -- the start-up loader, the *)
(* input submission, the break request and handleCurrentState, which       *)
(* re-arms itself with a timer while the program runs.  `Tick` is a        *)
(* separate, independently enabled action, so a break or a submission can  *)
(* arrive between any two ticks.  The page's protocol is parameterised by  *)
(* facts extracted from main.ts (LoaderChecksError, ...).                  *)
(***************************************************************************)
EXTENDS Conform

CONSTANTS LoaderChecksError,     \* the loader looks at the adapter state after each submitted line and stops on an error
          LoaderSkipsBlank,      \* the loader skips blank lines
          LoaderSkipsUnnumbered  \* the loader skips lines that do not start with a digit

(***************************************************************************)
(* The adapter.  W == [I, latch (some, res), pend (outputs not yet taken), *)
(* trap ("" or the reason)]                                                *)
(***************************************************************************)
\* the latch holds the error and -- for start_evaluating only -- the source line and caret rendered when it was latched
NoCaret == [ok |-> TRUE, lines |-> <<>>]
NoLatch == [some |-> FALSE, res |-> ResOk, caret |-> NoCaret]
NewAdapter == [I |-> Fresh, latch |-> NoLatch, pend |-> <<>>, trap |-> "", unk |-> FALSE]
Trap(W, why) == IF W.trap = "" THEN [W EXCEPT !.trap = why] ELSE W

MaybeReplace(I) == IF I.mode = "new" THEN Fresh ELSE I

\* start_evaluating / continue_evaluating
Evaluate(W, c) ==
    IF W.trap # "" THEN W
    ELSE IF W.latch.some THEN Trap(W, "assert_latest_error_is_none")
    ELSE IF ~Legal(W.I, c) THEN Trap(W, "core_state_assertion")
    ELSE LET r == Step(W.I, c)
         IN  IF Unknown(r) THEN [W EXCEPT !.unk = TRUE, !.trap = "unknown"]
             ELSE IF r.res.ok THEN [W EXCEPT !.I = MaybeReplace(r.I), !.pend = @ \o r.out]
             ELSE [W EXCEPT !.I = r.I, !.pend = @ \o r.out,
                            !.latch = [some |-> TRUE, res |-> r.res,
                                       caret |-> IF c.k = "submit" THEN CaretLines(r.I, r.res, c.text) ELSE NoCaret]]

WStart(W, text) == Evaluate(W, CSubmit(text))
WContinue(W) == Evaluate(W, CContinue)
WProvide(W, text) ==
    IF W.trap # "" THEN W
    ELSE IF W.I.mode # "awaiting" THEN Trap(W, "core_state_assertion")
    ELSE [W EXCEPT !.I = Step(W.I, CProvide(text)).I]
WBreak(W) == IF W.trap # "" THEN W
             ELSE LET r == Step(W.I, CBreak) IN [W EXCEPT !.I = r.I, !.pend = @ \o r.out]
WRandomize(W, seedDigits) == IF W.trap # "" THEN W ELSE [W EXCEPT !.I = Step(W.I, CRandomize(seedDigits)).I]

\* get_state: "errored" while the latch is set; a trap if the core is in the new-interpreter state
WState(W) == IF W.latch.some THEN "errored" ELSE W.I.mode
WStateTraps(W) == ~W.latch.some /\ W.I.mode = "new"

(***************************************************************************)
(* The page.  P == [W, full (isFullyInteractive), timers, shown (what the  *)
(* user has been shown: output records and error records), inputOn]        *)
(***************************************************************************)
\* The page seeds the generator once, when it is created (main.ts: randomize(Date.now())); the checks use this fixed
\* seed.  An interpreter created by NEW is NOT seeded again: it is a fresh one.
PageSeed == B("987654321")
SeededAdapter == [NewAdapter EXCEPT !.I = Step(NewAdapter.I, CRandomize(PageSeed)).I]
NewPage == [W |-> SeededAdapter, full |-> TRUE, timers |-> 0, shown |-> <<>>, inputOn |-> TRUE]

ShownErr(latch) == [t |-> "error", text |-> JoinWith(latch.caret.lines, <<LF>>), line |-> IF latch.res.hl THEN latch.res.line ELSE IMM,
                    what |-> latch.res.kind, unk |-> ~latch.caret.ok]

RECURSIVE HandleState(_, _)
HandleState(P, fuel) == \* handleCurrentState
    LET P1 == [P EXCEPT !.shown = @ \o P.W.pend, !.W.pend = <<>>]          \* showOutput
    IN  IF P1.W.trap # "" THEN P1
        ELSE IF WStateTraps(P1.W) THEN [P1 EXCEPT !.W = Trap(@, "get_state_saw_new_interpreter_state")]
        ELSE IF fuel = 0 THEN [P1 EXCEPT !.W = Trap(@, "unknown")]
        ELSE LET st == WState(P1.W)
             IN  CASE st = "idle" -> IF ~P1.full THEN [P1 EXCEPT !.inputOn = FALSE] ELSE P1
                   [] st = "awaiting" -> P1
                   [] st = "errored" ->                                         \* take_latest_error, print, handle again
                        HandleState([P1 EXCEPT !.shown = Append(@, ShownErr(P1.W.latch)), !.W.latch = NoLatch], fuel - 1)
                   [] st = "running" -> [P1 EXCEPT !.W = WContinue(@), !.timers = @ + 1]
                   [] OTHER -> [P1 EXCEPT !.W = Trap(@, "get_state_saw_new_interpreter_state")]

Handle(P) == HandleState(P, 50)

\* loadAndRunSourceCode + start()
RECURSIVE LoadLinesPage(_, _, _)
LoadLinesPage(W, lines, i) ==
    IF i > Len(lines) THEN WStart(W, B("RUN"))
    ELSE LET line == lines[i]
         IN  IF LoaderSkipsBlank /\ Trim(line) = <<>> THEN LoadLinesPage(W, lines, i + 1)
             ELSE IF LoaderSkipsUnnumbered /\ ~(line # <<>> /\ IsDigit(line[1])) THEN LoadLinesPage(W, lines, i + 1)
             ELSE LET W1 == WStart(W, line)
                  IN  IF LoaderChecksError /\ WState(W1) = "errored" THEN W1 ELSE LoadLinesPage(W1, lines, i + 1)

SplitLF(text) == LET RECURSIVE F(_, _, _)
                     F(s, i, cur) == IF i > Len(s) THEN <<cur>> ELSE IF s[i] = LF THEN <<cur>> \o F(s, i + 1, <<>>) ELSE F(s, i + 1, Append(cur, s[i]))
                 IN  F(text, 1, <<>>)

PageLoad(P, text) == Handle([P EXCEPT !.full = FALSE, !.W = LoadLinesPage(P.W, SplitLF(text), 1)])
PageStart(P) == Handle(P)

\* submitUserInput (the caller checks canProcessUserInput)
CanSubmit(P) == P.W.trap = "" /\ P.inputOn /\ ~WStateTraps(P.W) /\ WState(P.W) \in {"idle", "awaiting"}
PageSubmit(P, text) ==
    LET st == WState(P.W)
    IN  Handle([P EXCEPT !.W = IF st = "idle" THEN WStart(@, text) ELSE WProvide(@, text)])

\* breakAtCurrentLocation (the caller checks canBreak: state is not Idle)
CanBreak(P) == P.W.trap = "" /\ ~WStateTraps(P.W) /\ WState(P.W) \in {"awaiting", "running"}
PageBreak(P) == Handle([P EXCEPT !.full = TRUE, !.inputOn = TRUE, !.W = WBreak(@)])

\* a pending timer fires
CanTick(P) == P.W.trap = "" /\ P.timers > 0
PageTick(P) == Handle([P EXCEPT !.timers = @ - 1])

(***************************************************************************)
(* C19.                                                                    *)
(***************************************************************************)
NoTrap(P) == P.W.trap \in {"", "unknown"}
=============================================================================
