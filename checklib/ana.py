"""C05 (static analysis terminates with well-formed diagnostics) and C06 (checker and interpreter agree).

model:     Analyzer.tla -- the file pass, the kind-checking walk (a fork of the evaluator, as in the code), symbol
           warnings and the source map.  AnalyzerProps.tla states C05 over it; MC_C06 states C06 over the Analyzer
           and Abasic models together.
generate:  MC_Analyzer enumerates every file of <= N lines over an 20-shape line alphabet; MC_C06 every writable
           one-line program over a 17-token alphabet; each row is run through the real analyzer (and interpreter).
validate:  random files (line shapes, token soup, raw UTF-8) analysed by the real analyzer are judged by TLC
           (Trace_Analyzer); generated multi-line programs the checker accepts are run under several reply scripts."""
import json, os, time
from . import common as c

ASSUMPTIONS = [
    "symbol warnings are compared as multisets (the analyzer iterates a HashMap)",
    "message texts are not compared, only kinds, file lines, error kinds and mapped ranges",
    "deep-nesting files are analysed in child processes; the model has no native stack",
]


def replay_mc(wd, module, cfg, sub, tag, workers=10):
    out = os.path.join(wd, f"{tag}.out")
    st = c.run_tlc(module, cfg, out, os.path.join(wd, f"md_{tag}"), workers=workers, timeout=5400)
    c.require_tlc_ok(st, module)
    rp = os.path.join(wd, f"{tag}.replay.json")
    c.run_vh([sub, out, rp])
    os.remove(out)
    return st, json.load(open(rp))


def run_c05(pid, tier, seed):
    t0 = time.time()
    q = tier == "quick"
    wd = c.workdir(pid)
    c.build_harness()
    cfg = f"INIT Init\nNEXT Next\nCONSTANT MaxLines = {3 if q else 4}\nCONSTANT EmitRows = TRUE\nINVARIANT C05\nINVARIANT EmitRow\nCHECK_DEADLOCK FALSE\n"
    st, rep = replay_mc(wd, "MC_Analyzer", cfg, "ana-replay", "mc_analyzer")
    violations, unexplained = [], 0
    for v in rep["violations"]:
        if v["property"] == "ANALYZER":
            unexplained += 1            # which diagnostics appear is not C05's business (C06 / C20 compare them)
        else:
            violations.append(v)
    n = 2000 if q else 200000
    shards = 4 if q else 16
    cmds, reports = [], []
    for k in range(shards):
        tr = os.path.join(wd, f"ana_{k}.ndjson")
        rp = os.path.join(wd, f"ana_{k}.report.json")
        cmds.append((["ana-record", str(seed * 100 + k), str(n // shards), tr, rp], tr))
        reports.append(rp)
    validated = 0
    for k, (events, vs, _) in enumerate(c.validate_traces("Trace_Analyzer", cmds, wd, "trace_ana")):
        validated += len(events)
        violations += json.load(open(reports[k]))["violations"]
        for v in vs:
            ev = events[v["i"] - 1]
            for why in v["why"]:
                if why.startswith("MODEL:"):
                    raise c.ToolError(f"model inconsistency {why} on file {bytes(ev['text'])!r}")
                if why.startswith("C05:"):
                    violations.append({"property": "C05", "class": "trace_event_rejected", "features": {"what": why[4:]},
                                       "replay": {"file": ev["text"], "file_text": bytes(ev["text"]).decode("utf-8", "replace")}})
                else:
                    unexplained += 1
    dv, dn = c.deep_probes(pid, ["ana-paren", "ana-abs", "ana-index", "ana-ifthen"], depths=(63, 64, 65, 3000, 100000))
    violations += dv
    cov = {"states": st["distinct"], "transitions": rep["counters"].get("rows", 0),
           "traces_validated_against_impl": rep["counters"].get("rows", 0) + validated,
           "files_enumerated_and_replayed": rep["counters"].get("rows", 0), "random_files_validated_by_tlc": validated,
           "deep_nesting_probes_in_child_processes": dn,
           "evaluations": rep["counters"].get("rows", 0) + validated + dn, "distinct_nontrivial": rep["counters"].get("rows_nontrivial", 0),
           "rule": f"every file of <= {3 if q else 4} lines over the 20-shape line alphabet of MC_Analyzer.tla; non-trivial = analysis reports at least one message",
           "unexplained_divergences": unexplained, "model_invariants_checked": ["C05Holds"], "samples": rep["samples"][:5], "exhaustive": True}
    c.finish(pid, tier, seed, t0, cov, violations, ASSUMPTIONS)


def run_c06(pid, tier, seed):
    t0 = time.time()
    q = tier == "quick"
    wd = c.workdir(pid)
    c.build_harness()
    cfg = f"INIT Init\nNEXT Next\nCONSTANT MaxLen = {4 if q else 5}\nCONSTANT EmitRows = TRUE\nINVARIANT C06\nINVARIANT EmitRow\nCHECK_DEADLOCK FALSE\n"
    st, rep = replay_mc(wd, "MC_C06", cfg, "c06-replay", "mc_c06", workers=12)
    violations = list(rep["violations"])
    # the same two implications over expression trees: `10 PRINT e`, `10 X = e`, `10 A$ = e`
    import concurrent.futures as cf
    groups = [["un", "bin", "lists"], ["left"]] if q else [["un", "bin", "unbin", "lists"], ["left"], ["right"]]

    def expr_group(i):
        gcfg = ("INIT Init\nNEXT Next\nCONSTANT Shapes = {" + ", ".join(f'"{x}"' for x in groups[i]) + "}\nCONSTANT EmitRows = TRUE\n"
                "INVARIANT C06\nINVARIANT EmitRow\nCHECK_DEADLOCK FALSE\n")
        return replay_mc(wd, "MC_C06b", gcfg, "c06-replay", f"mc_c06b_{i}", workers=3)

    expr_rows = 0
    with cf.ThreadPoolExecutor(max_workers=3) as ex:
        for stb, repb in ex.map(expr_group, range(len(groups))):
            violations += repb["violations"]
            expr_rows += repb["counters"].get("rows", 0)
    # the analyzer side of every enumerated file of MC_Analyzer must match the model too (error kinds decide C06)
    cfg2 = f"INIT Init\nNEXT Next\nCONSTANT MaxLines = {2 if q else 3}\nCONSTANT EmitRows = TRUE\nINVARIANT C05\nINVARIANT EmitRow\nCHECK_DEADLOCK FALSE\n"
    st2, rep2 = replay_mc(wd, "MC_Analyzer", cfg2, "ana-replay", "mc_analyzer")
    for v in rep2["violations"]:
        if v["property"] == "ANALYZER" and v["features"].get("errors_differ"):
            violations.append({**v, "property": "C06", "class": "checker_differs_from_model"})
    fw = os.path.join(wd, "forward.json")
    nprog = 300 if q else 20000
    c.run_vh(["c06-forward", str(seed), str(nprog), fw], timeout=7200)
    frep = json.load(open(fw))
    violations += frep["violations"]
    # forward direction on the kernels, over ALL executions (every reply), in the model and on replay
    from . import sess
    module, kcfg, desc = sess.inst_kernels(1, lines="RunOnly")
    kcfg += "INVARIANT C06Forward\n"
    stk, repk = replay_mc(wd, module, kcfg, "sess-replay", "mc_kernels_c06")
    for v in repk["violations"]:
        if v["property"] == "SESSION" and set(v["features"]["fields"]) & {"res.ok", "res.kind"}:
            violations.append({**v, "property": "C06", "class": "run_differs_from_model"})
    cov = {"states": st["distinct"] + st2["distinct"] + stk["distinct"],
           "transitions": rep["counters"].get("rows", 0) + expr_rows + rep2["counters"].get("rows", 0) + repk["counters"].get("rows", 0),
           "traces_validated_against_impl": rep["counters"].get("rows", 0) + rep2["counters"].get("rows", 0) + repk["counters"].get("rows", 0) + frep["counters"].get("runs", 0),
           "one_line_programs_replayed": rep["counters"].get("rows", 0), "expression_programs_replayed": expr_rows, "files_replayed": rep2["counters"].get("rows", 0),
           "kernel_transitions_replayed": repk["counters"].get("rows", 0),
           "generated_programs": frep["counters"].get("programs", 0), "generated_programs_accepted_by_checker": frep["counters"].get("programs_accepted_by_checker", 0),
           "runs_of_accepted_programs": frep["counters"].get("runs", 0),
           "evaluations": rep["counters"].get("rows", 0) + frep["counters"].get("runs", 0),
           "distinct_nontrivial": rep["counters"].get("rows_nontrivial", 0),
           "rule": f"every writable one-line program of <= {4 if q else 5} tokens over the 17-token alphabet of MC_C06.tla; non-trivial = the checker or the run reports an error",
           "model_invariants_checked": ["C06 (converse and forward on one-line programs over tokens and over expression trees)", "C06Forward (kernels the checker accepts, all executions)"],
           "samples": rep["samples"][:4] + frep["samples"][:2], "exhaustive": True}
    c.finish(pid, tier, seed, t0, cov, violations, ASSUMPTIONS)
