"""C12 / C13 / C14: the Lexer model (spec/Lexer.tla, LexProps.tla).

generate:  TLC enumerates every line of <= MaxLex lexemes (MC_Lex), checks the three
           properties on the model for each, and prints one table row per line; the
           harness replays every row (and every perturbation C12 allows) through the
           real tokenizer / LIST / reload.
validate:  the harness records random longer lines from the real tokenizer; TLC judges
           every event with the same model and properties (Trace_Lex)."""
import json, os, time
from . import common as c

TIERS = {
    "quick": {"maxlex": 3, "trace_events": 1500, "tlc_timeout": 900},
    "thorough": {"maxlex": 4, "trace_events": 40000, "tlc_timeout": 5400},
}

ASSUMPTIONS = [
    "lines are valid UTF-8 (they are Rust Strings); the alphabet is listed in MC_Lex.tla / lexrec.rs",
    "numeric literal values are compared inside the model's exact dyadic domain; outside it only the token kind is compared",
    "TLC and the TLA+ model of the lexer are trusted as the oracle; every row is also checked by implementation-vs-itself differentials (perturbed line, reload)",
]


def run(pid, tier, seed):
    t0 = time.time()
    cfg = TIERS[tier]
    wd = c.workdir(pid)
    c.build_harness()

    # ---- generate direction
    out = os.path.join(wd, "mc_lex.out")
    mc_cfg = (f"INIT Init\nNEXT Next\nCONSTANT MaxLex = {cfg['maxlex']}\nCONSTANT Emit = TRUE\n"
              "INVARIANT C12\nINVARIANT C13\nINVARIANT C14\nINVARIANT EmitRow\nVIEW LineView\nCHECK_DEADLOCK FALSE\n")
    stats = c.run_tlc("MC_Lex", mc_cfg, out, os.path.join(wd, "md"), workers=12, timeout=cfg["tlc_timeout"])
    c.require_tlc_ok(stats, "MC_Lex")
    rep_path = os.path.join(wd, "lex_replay.json")
    c.run_vh(["lex-replay", out, rep_path])
    rep = json.load(open(rep_path))
    os.remove(out)
    if rep["counters"].get("rows", 0) != stats["distinct"]:
        raise c.ToolError(f"replayed {rep['counters'].get('rows')} rows but TLC found {stats['distinct']} lines")

    # ---- validate direction
    n_ev = cfg["trace_events"]
    shards = 1 if n_ev <= 4000 else 8
    verdicts, validated = [], 0
    cmds = []
    for k in range(shards):
        tr = os.path.join(wd, f"lex_trace_{k}.ndjson")
        cmds.append((["lex-record", str(seed * 1000 + k), str(n_ev // shards), tr], tr))
    trace_violations = []
    for events, vs, _ in c.validate_traces("Trace_Lex", cmds, wd, "trace_lex"):
        validated += len(events)
        for ev in events:
            if ev.get("err") == "PANIC":
                trace_violations.append({"property": pid, "class": "tokenizer_panicked", "features": {},
                                         "replay": {"line": ev["line"], "text": bytes(ev["line"]).decode("utf-8", "replace")}})
        for v in vs:
            ev = events[v["i"] - 1]
            if ev.get("err") == "PANIC":
                continue
            for why in v["why"]:
                if why.startswith("MODEL:"):
                    raise c.ToolError(f"the MODEL violates {why} on line {bytes(ev['line'])!r}")
                prop, what = why.split(":", 1)
                trace_violations.append({
                    "property": prop, "class": "trace_event_rejected",
                    "features": {"what": what},
                    "replay": {"line": ev["line"], "text": bytes(ev["line"]).decode("utf-8", "replace"), "event": ev},
                })

    violations = rep["violations"] + trace_violations
    cnt = rep["counters"]
    coverage = {
        "states": stats["distinct"], "transitions": stats["generated"],
        "traces_validated_against_impl": cnt.get("rows", 0) + validated,
        "exhaustive": True,
        "rule": f"every line of <= {cfg['maxlex']} lexemes over the 36-lexeme alphabet of MC_Lex.tla (distinct byte strings) plus 4056 DATA statements by grammar (two items of 13 kinds x 3 separators x 4 tails); "
                "non-trivial = the line yields at least one token",
        "evaluations": cnt.get("rows", 0) + cnt.get("perturbations", 0) + cnt.get("list_roundtrips", 0) + validated,
        "distinct_nontrivial": cnt.get("rows_nontrivial", 0),
        "rows_replayed": cnt.get("rows", 0),
        "perturbations_replayed": cnt.get("perturbations", 0),
        "list_roundtrips_replayed": cnt.get("list_roundtrips", 0),
        "random_trace_events_validated_by_tlc": validated,
        "model_invariants_checked": ["C12Holds", "C13Holds", "C14Holds"],
        "unexplained_divergences": cnt.get("listing_spelled_differently_from_model", 0),   # LIST spelling differs from the model's but reloads
        "tlc_wall_s": stats["wall_s"],
        "samples": rep["samples"][:5],
    }
    c.finish(pid, tier, seed, t0, coverage, violations, ASSUMPTIONS)
