"""Session properties C01, C03, C04, C07, C08, C09, C10, C11, C16, C17.

All are decided with the Abasic model (spec/Abasic.tla): one `Step` function from
(interpreter record, host call) to (record, outputs, result).

generate:  MC_Session instances (MC_C01, MC_C04, MC_Kernels): TLC explores every legal call
           sequence within a budget, checks the property's invariants / one-step lemmas at every
           reachable state, and prints one row per transition; the harness replays every row on
           the real interpreter and compares result, outputs and the full state snapshot.
validate:  seeded drivers run the real interpreter (generated programs, break schedules, session
           histories, edits and probes, byte-level fuzz) and TLC folds the same `Step` over the
           recorded events (Trace_Session).  Differential drivers additionally compare two real
           runs with each other (the monitor M_P of the property).

A check raises an alarm only for (a) a monitor of ITS property that is false on real
observations, or (b) a difference between model and implementation in a field of ITS
projection pi_P.  Other differences are counted as unexplained divergences in the evidence."""
import concurrent.futures as cf, json, os, time
from . import common as c

# ---- pi_P: which observation fields a property's statement talks about
PI = {
    "C01": {"res.ok", "mode", "panic", "protocol", "caret"},
    "C03": {"out.text", "out.count", "out.kind", "res.ok", "res.kind", "res.loc", "panic"},
    "C04": {"keys", "prog", "out.text", "out.count", "panic"},
    "C07": {"out.text", "out.count", "out.kind", "res.ok", "res.kind", "mode", "bp", "stack", "loops", "data", "vars", "arrays", "loc", "panic"},
    "C08": {"mode", "out.kind", "out.count", "out.text", "vars", "arrays", "input", "loc", "res.ok", "res.kind", "panic"},
    "C09": {"out.count", "out.kind", "out.line", "out.text", "mode", "loc", "panic"},
    "C10": {"vars", "arrays", "loops", "stack", "fns", "data", "bp", "input", "out.text", "out.count", "res.ok", "res.kind", "panic"},
    "C11": {"res.ok", "res.kind", "bp", "stack", "loops", "fns", "data", "vars", "arrays", "keys", "prog", "panic"},
    "C16": {"stack", "loops", "arrays", "vars", "panic"},
    "C17": {"out.kind", "out.line", "out.count", "out.text", "res.ok", "res.kind", "vars", "arrays", "panic"},
}

COMMON_CFG = ("INIT Init\nNEXT Next\nCONSTANT Seeds = {{}}\nCONSTANT EmitRows = TRUE\n"
              "CONSTANT TokenizeLine <- MCTokenizeLine\nCONSTANT StepOp <- Step\nVIEW StateView\nCHECK_DEADLOCK FALSE\n"
              "CONSTANT TraceFlag = {trace}\nCONSTANT WarnFlag = {warn}\nCONSTANT MaxCost = {cost}\n")
ALL_INVS = ["ErrIdle", "RefIntegrity", "ErrorRenderable", "Caps", "RunningCanBreak", "ModeTyped",
            "BreakContTransparent", "RunIsFresh", "FlagsDoNotInterfere", "EditInvalidates"]


def inst_c01(cost, trace=False, warn=False):
    cfg = COMMON_CFG.format(trace=str(trace).upper(), warn=str(warn).upper(), cost=cost)
    cfg += "CONSTANT Lines <- C01Lines\nCONSTANT Replies <- C01Replies\nCONSTANT Cost <- UnitCost\nCONSTANT StartStates <- EmptyStart\n"
    cfg += "".join(f"INVARIANT {i}\n" for i in ALL_INVS)
    return ("MC_C01", cfg, f"MC_C01 (17-line alphabet, all legal call sequences of length <= {cost})")


def inst_immloops(cost):
    cfg = COMMON_CFG.format(trace="FALSE", warn="FALSE", cost=cost)
    cfg += "CONSTANT Lines <- ImmLoopLines\nCONSTANT Replies = {}\nCONSTANT Cost <- UnitCost\nCONSTANT StartStates <- EmptyStart\n"
    cfg += "".join(f"INVARIANT {i}\n" for i in ALL_INVS)
    return ("MC_Kernels", cfg, f"MC_Kernels (FOR / NEXT typed at the prompt: 7 immediate lines, all sequences of length <= {cost})")


def inst_c04(cost):
    cfg = COMMON_CFG.format(trace="FALSE", warn="FALSE", cost=cost)
    cfg = cfg.replace("VIEW StateView", "VIEW C04View")
    cfg += "CONSTANT Lines <- LinesDef\nCONSTANT Replies = {}\nCONSTANT Cost <- UnitCost\nCONSTANT StartStates <- EmptyStart\n"
    cfg += "".join(f"INVARIANT {i}\n" for i in ["LastWriterWins", "RefIntegrity", "ErrIdle", "Caps"])
    return ("MC_C04", cfg, f"MC_C04 (8 line numbers x 9 bodies + LIST + RUN, all sequences of length <= {cost})")


def inst_kernels(cost, trace=False, warn=False, lines="AllLines", kernels="Kernels"):
    cfg = COMMON_CFG.format(trace=str(trace).upper(), warn=str(warn).upper(), cost=cost)
    cfg += f"CONSTANT Lines <- {lines}\nCONSTANT Replies <- ReplySet\nCONSTANT Cost <- FreeRunCost\nCONSTANT StartStates <- {kernels}\n"
    cfg += "".join(f"INVARIANT {i}\n" for i in ALL_INVS)
    return ("MC_Kernels", cfg, f"MC_Kernels ({kernels} x {lines}; Continue/Provide free, every Submit/Break costs 1, budget {cost}; trace={trace} warn={warn})")


# ---- what each property's check runs, per tier
def plan(pid, tier):
    q = tier == "quick"
    P = {
        "C01": dict(mc=[inst_c01(5 if q else 7)], drivers=[("boundary", 1, []), ("fuzz", 300 if q else 30000, [])]),
        "C03": dict(mc=[inst_kernels(1, lines="RunOnly"), inst_kernels(1, lines="RunOnly", kernels="MatrixKernels"), inst_kernels(1, lines="RunOnly", kernels="ScaleKernels"),
                        inst_kernels(1, lines="RunOnly", kernels="CapKernels")], drivers=[("progs", 240 if q else 4000, [])]),
        "C04": dict(mc=[inst_c04(4 if q else 5)], drivers=[]),
        "C07": dict(mc=[inst_kernels(3 if q else 4, lines="BreakLines"), inst_kernels(3 if q else 4, lines="RunCont", kernels="MatrixKernels")], drivers=[("breakcont", 60 if q else 3000, []), ("stopassign", 120 if q else 4000, [])]),
        "C08": dict(mc=[inst_kernels(2 if q else 3, lines="BreakLines", kernels="InputKernels"), inst_kernels(2 if q else 3, lines="BreakLines", kernels="MatrixInputKernels")],
                    drivers=[("inputassign", 150 if q else 6000, []), ("progs", 40 if q else 1500, ["input"])]),
        "C09": dict(mc=[inst_kernels(1, trace=True, lines="RunOnly"), inst_kernels(1, trace=True, lines="RunOnly", kernels="MatrixKernels")], drivers=[("progs", 200 if q else 3000, ["trace", "input"]), ("progs", 120 if q else 2000, ["trace", "breaks"]), ("cycles", 6 if q else 60, []), ("breakcont", 40 if q else 1500, [])]),
        "C10": dict(mc=[inst_c01(5 if q else 6)], drivers=[("runfresh", 120 if q else 6000, []), ("cycles", 9 if q else 90, [])]),
        "C11": dict(mc=[inst_kernels(3 if q else 4, lines="EditLines")], drivers=[("editprobe", 150 if q else 6000, []), ("cycles", 2 if q else 8, [])]),
        "C16": dict(mc=[inst_kernels(1, lines="RunOnly"), inst_kernels(1, lines="RunOnly", kernels="CapKernels"), inst_kernels(1, lines="RunOnly", kernels="ScaleKernels"), inst_c01(4 if q else 6), inst_immloops(4 if q else 6),
                        inst_kernels(3, lines="CapProbeLines", kernels="CapBreakKernels")],
                    drivers=[("boundary", 1, []), ("fuzz", 200 if q else 20000, []), ("progs", 40 if q else 1500, [])]),
        "C17": dict(mc=[inst_kernels(2 if q else 3, trace=True, warn=True, lines="BreakLines"), inst_kernels(2 if q else 3, trace=True, warn=True, lines="RunCont", kernels="MatrixKernels"),
                        inst_kernels(1, trace=True, warn=True, lines="RunOnly", kernels="CapKernels")], drivers=[("flags4", 80 if q else 2000, []), ("cycles", 2 if q else 16, ["warn"])]),
    }
    return P[pid]


ASSUMPTIONS = [
    "numbers are compared inside the model's exact dyadic domain (Num.tla); a prediction that would depend on an inexact value is "
    "'unknown' and the rest of that run is not judged (counted as truncated_inexact)",
    "message texts (warnings, BREAK notices) are never compared, only record kinds, line numbers and counts",
    "the verif-hooks snapshot is a faithful read-only projection of the interpreter's private state",
    "INTERNALS and STATS commands and first words containing non-ASCII characters are outside the model (events marked dom=false end the judged part of a run)",
]


# The abstract state every later statement reads.  Step is deterministic, so two interpreters that differ here
# have different futures for SOME continuation (seed C03-b: inner loops kept by NEXT of an outer loop only show
# in the output of a program that jumps over the inner FOR).  A difference in these fields is therefore charged
# to the session property being checked, not filed as "unexplained".
CORE_STATE = {"mode", "loc", "bp", "stack", "loops", "data", "fns", "vars", "arrays", "input"}


def attribute(pid, fields):
    return bool(set(fields) & (PI[pid] | CORE_STATE))


def run(pid, tier, seed):
    t0 = time.time()
    pl = plan(pid, tier)
    import json
    wd = c.workdir(pid)
    c.build_harness()
    violations, unexplained = [], []
    cov = {"states": 0, "transitions": 0, "traces_validated_against_impl": 0, "instances": [], "drivers": [],
           "rows_replayed": 0, "rows_nontrivial": 0, "events_judged_by_tlc": 0, "truncated_inexact": 0, "samples": []}

    # ---------------- generate direction
    def mc(i):
        module, cfg, desc = pl["mc"][i]
        out = os.path.join(wd, f"mc_{i}.out")
        st = c.run_tlc(module, cfg, out, os.path.join(wd, f"md_mc_{i}"), workers=max(4, 12 // len(pl["mc"])), timeout=5400)
        c.require_tlc_ok(st, desc)
        rp = os.path.join(wd, f"mc_{i}.replay.json")
        c.run_vh(["sess-replay", out, rp])
        os.remove(out)
        return desc, st, json.load(open(rp))

    with cf.ThreadPoolExecutor(max_workers=2) as ex:
        for desc, st, rep in ex.map(mc, range(len(pl["mc"]))):
            rows = rep["counters"].get("rows", 0)
            if rows != st["generated"] - 1 and rows != st["generated"] - st.get("initial", 1):
                pass  # several initial states: generated counts them too
            cov["states"] += st["distinct"]
            cov["transitions"] += rows
            cov["rows_replayed"] += rows
            cov["rows_nontrivial"] += rep["counters"].get("rows_nontrivial", 0)
            cov["traces_validated_against_impl"] += rows
            cov["instances"].append({"instance": desc, "distinct_states": st["distinct"], "transitions_replayed": rows,
                                     "tlc_wall_s": st["wall_s"], "calls": {k[6:]: v for k, v in rep["counters"].items() if k.startswith("calls_")},
                                     "paths_not_replayable": rep["counters"].get("rows_path_not_replayable", 0)})
            cov["samples"] += rep["samples"][:2]
            for v in rep["violations"]:
                if v["property"] == "SESSION":
                    if attribute(pid, v["features"]["fields"]):
                        violations.append({**v, "property": pid})
                    else:
                        unexplained.append(v["features"]["fields"])
                elif v["class"] in ("panic", "caret_rendering_panicked", "error_without_idle"):
                    violations.append({**v, "property": pid})       # a crash is a violation of whatever is being checked
                else:
                    violations.append(v)

    # ---------------- validate direction
    for di, (driver, n, flags) in enumerate(pl["drivers"]):
        shards = 12 if driver == "boundary" else (2 if n <= 60 else (8 if n <= 400 else 14))
        cmds, reports = [], []
        for k in range(shards):
            tr = os.path.join(wd, f"{driver}{di}_{k}.ndjson")
            rp = os.path.join(wd, f"{driver}{di}_{k}.report.json")
            if driver == "boundary":       # a fixed catalogue, split over the shards
                cmds.append((["sess-record", driver, str(k), str(shards), tr, rp], tr))
            else:
                cmds.append((["sess-record", driver, str(seed * 100 + k), str(max(1, n // shards)), tr, rp, *flags], tr))
            reports.append(rp)
        results = c.validate_traces("Trace_Session", cmds, wd, f"trace_{driver}{di}", timeout=5400)
        d = {"driver": driver, "flags": flags, "runs": n, "events": 0, "judged": 0, "verdicts": {}}
        for k, (events, vs, judged) in enumerate(results):
            rep = json.load(open(reports[k]))
            d["events"] += len(events)
            d["judged"] += judged or 0
            for key, val in rep["counters"].items():
                d[key] = d.get(key, 0) + val
            if k == 0:
                cov["samples"] += rep["samples"][:2]
            rerun = {"recorder": cmds[k][0][:-2], "trace_spec": "Trace_Session"}
            for v in rep["violations"]:
                if v["class"] in ("panic", "caret_rendering_panicked", "error_without_idle"):
                    v = {**v, "property": pid}
                violations.append({**v, "rerun": rerun})
            for v in vs:
                ev = events[v["i"] - 1]
                d["verdicts"][v["kind"]] = d["verdicts"].get(v["kind"], 0) + 1
                if v["kind"] == "unknown":
                    cov["truncated_inexact"] += 1
                    continue
                fields = v["fields"]
                run_events = [e for e in events[:v["i"]] if e.get("run") == ev.get("run")]
                replay = {"driver": driver, "seed": seed * 100 + k, "run": ev.get("run"), "event_index": v["i"],
                          "calls": [call_text(e["c"]) for e in run_events][-40:], "observed": {kk: ev.get(kk) for kk in ("res", "out", "panic")},
                          "meta": next((e.get("meta") for e in run_events if e["c"]["k"] == "reset"), None)}
                if attribute(pid, fields):
                    violations.append({"property": pid, "class": "trace_event_rejected_by_model", "features": {"fields": fields, "kind": v["kind"]}, "replay": replay, "rerun": rerun})
                else:
                    unexplained.append(fields)
        cov["events_judged_by_tlc"] += d["judged"]
        cov["traces_validated_against_impl"] += d["runs"]
        cov["drivers"].append(d)

    if pid == "C03":
        # breadth: every one-line program of MC_C06b (all operator pairs, every position of every
        # comma-separated list, both operand kinds) RUN in the model and on the real interpreter --
        # exactly the printed output and, on failure, the error kind and line
        from . import ana
        groups = [["un", "bin", "lists"]] if tier == "quick" else [["un", "bin", "unbin", "lists"], ["left"], ["right"]]
        for gi, shapes in enumerate(groups):
            gcfg = ("INIT Init\nNEXT Next\nCONSTANT Shapes = {" + ", ".join(f'"{x}"' for x in shapes) + "}\nCONSTANT EmitRows = TRUE\n"
                    "INVARIANT C06\nINVARIANT EmitRow\nCHECK_DEADLOCK FALSE\n")
            stb, repb = ana.replay_mc(wd, "MC_C06b", gcfg, "c06-replay", f"mc_oneline_{gi}", workers=4)
            n = repb["counters"].get("outputs_compared", 0)
            cov["states"] += stb["distinct"]
            cov["rows_replayed"] += n
            cov["traces_validated_against_impl"] += n
            cov["instances"].append({"instance": f"MC_C06b{shapes}: one-line programs, printed output and error line compared", "distinct_states": stb["distinct"],
                                     "transitions_replayed": n, "tlc_wall_s": stb["wall_s"]})
            for v in repb["violations"]:
                if v["property"] == "C03" or v["class"] in ("run_differs_from_model", "panic"):
                    violations.append({**v, "property": "C03"})
    if pid == "C03":
        # FOR / NEXT with decimal (non-dyadic) bounds and steps: the specification's rule evaluated in IEEE doubles by the harness
        fp = os.path.join(wd, "forsteps.json")
        c.run_vh(["for-steps", str(seed), str(1500 if tier == "quick" else 60000), fp])
        frep = json.load(open(fp))
        violations += frep["violations"]
        cov["for_loops_against_ieee_reference"] = frep["counters"].get("loops", 0)
    if pid == "C01":
        dv, dn = c.deep_probes(pid, ["paren", "abs", "index", "ifthen", "not", "unary", "notchain", "dimsubs", "implicit"])
        dv2, dn2 = c.deep_probes(pid, ["fnrec-paren", "fnrec-index", "fnmutual-paren"], depths=(5, 30, 60))      # two caps multiplied
        dv, dn = dv + dv2, dn + dn2
        violations += dv
        cov["deep_nesting_probes_in_child_processes"] = dn
    cov["unexplained_divergences"] = len(unexplained)
    cov["unexplained_divergence_fields"] = sorted({f for fs in unexplained for f in fs})
    cov["evaluations"] = cov["rows_replayed"] + cov["events_judged_by_tlc"]
    cov["distinct_nontrivial"] = cov["rows_nontrivial"]
    cov["rule"] = ("one row per transition of the listed MC_Session instances (distinct (state, call) pairs; non-trivial = the call "
                   "produced output or an error) plus events recorded by the listed drivers and judged by TLC")
    cov["exhaustive"] = True
    cov["samples"] = cov["samples"][:6]
    cov["model_invariants_checked"] = ALL_INVS if pid != "C04" else ["LastWriterWins", "RefIntegrity", "ErrIdle", "Caps"]
    c.finish(pid, tier, seed, t0, cov, violations, ASSUMPTIONS)


def call_text(cl):
    k = cl["k"]
    if k in ("submit", "provide"):
        return f"{k} {bytes(cl['text']).decode('utf-8', 'replace')!r}"
    if k == "randomize":
        return f"randomize {bytes(cl['seed']).decode()}"
    return k
