"""C15: loading a file equals typing it in; CLI options apply in both modes.

model:     Cli.tla -- StdioInterpreter with pipes: option handling, file mode (analyze, refuse on static errors unless
           --skip-check, RUN) vs interactive mode (lines from stdin), the line-buffering printer's stdout/stderr
           interleaving, exit codes; and the loader equivalence (analyzer's program = typed-in program).
generate:  MC_Cli: kernels + duplicate / unordered / partial-line programs x 8 option sets x 3 reply scripts; TLC checks
           both halves of C15 on the model and prints the predicted streams; the real `abasic` binary is run both
           ways (NO_COLOR, scratch HOME) and compared with itself and with the prediction; the real loader
           (SourceFileAnalyzer::into_interpreter) is compared with line-by-line entry (LIST, tokens, RUN transcript).
validate:  generated programs x random options through the real binary both ways, judged by TLC (Trace_Cli)."""
import json, os, shutil, time
from . import common as c

ASSUMPTIONS = [
    "stdin and stdout are pipes (rustyline then reads plain lines and echoes no prompt); terminal behaviour is out of scope",
    "the CLI seeds RND from the clock, so programs with RND are not compared",
    "stderr texts are classified into records (warning / break / error kind + line number); wording is not compared",
    "banner lines and file-mode static-analysis messages are removed before comparing the two modes",
]


def run(pid, tier, seed):
    t0 = time.time()
    q = tier == "quick"
    wd = c.workdir(pid)
    c.build_harness()
    c.build_repo_binaries()
    scratch = os.path.join(wd, "scratch")
    out = os.path.join(wd, "mc_cli.out")
    cfg = "INIT CInit\nNEXT CNext\nCONSTANT EmitCliRows = TRUE\nINVARIANT C15\nINVARIANT EmitCliRow\nCHECK_DEADLOCK FALSE\n"
    st = c.run_tlc("MC_Cli", cfg, out, os.path.join(wd, "md"), workers=4, timeout=3000)
    c.require_tlc_ok(st, "MC_Cli")
    rp = os.path.join(wd, "cli_replay.json")
    c.run_vh(["cli-replay", out, c.ABASIC_BIN, scratch, rp])
    rep = json.load(open(rp))
    os.remove(out)
    violations = list(rep["violations"])
    n = 24 if q else 1600
    shards = 6 if q else 16
    cmds, reports = [], []
    for k in range(shards):
        tr = os.path.join(wd, f"cli_{k}.ndjson")
        rpk = os.path.join(wd, f"cli_{k}.report.json")
        cmds.append((["cli-record", str(seed * 100 + k), str(n // shards), c.ABASIC_BIN, os.path.join(scratch, str(k)), tr, rpk], tr))
        reports.append(rpk)
    validated = 0
    samples = rep["samples"][:3]
    for k, (events, vs, _) in enumerate(c.validate_traces("Trace_Cli", cmds, wd, "trace_cli", timeout=5400)):
        validated += len(events)
        rrep = json.load(open(reports[k]))
        violations += rrep["violations"]            # the recorder's own verdicts (files too big for the model: file mode vs interactive)
        if k == 0:
            samples += rrep["samples"][:2]
        for v in vs:
            ev = events[v["i"] - 1]
            for why in v["why"]:
                if why.startswith("MODEL:"):
                    raise c.ToolError(f"model inconsistency {why}")
                violations.append({"property": "C15", "class": "cli_run_rejected_by_model", "features": {"what": why[4:], "w": ev["w"], "t": ev["t"], "s": ev["s"]},
                                   "replay": {"program": [bytes(l).decode() for l in ev["lines"]], "options": {"w": ev["w"], "t": ev["t"], "s": ev["s"]},
                                              "file": ev["file"], "interactive": ev["interactive"]}})
    shutil.rmtree(scratch, ignore_errors=True)
    cov = {"states": st["distinct"], "transitions": rep["counters"].get("rows", 0),
           "traces_validated_against_impl": 2 * rep["counters"].get("rows", 0) + validated,
           "cases_enumerated": rep["counters"].get("rows", 0), "cases_where_modes_are_compared": rep["counters"].get("cases_compared", 0),
           "loader_comparisons": rep["counters"].get("loads_compared", 0), "generated_programs_validated_by_tlc": validated,
           "evaluations": 2 * rep["counters"].get("rows", 0) + 2 * validated, "distinct_nontrivial": rep["counters"].get("rows_nontrivial", 0),
           "rule": "MC_Cli: 21 programs x 8 option sets x 3 reply scripts, each run through the real binary in both modes; non-trivial = a mode's streams match a fully predicted model run",
           "model_invariants_checked": ["C15Cli", "C15Load"], "samples": samples, "exhaustive": True}
    c.finish(pid, tier, seed, t0, cov, violations, ASSUMPTIONS)
