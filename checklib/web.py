"""C19: the Web adapter is a faithful, trap-free wrapper under the page's protocol.

model:     Web.tla -- JsInterpreter (error latch, interpreter swap on NEW, get_state with its panic arm) and the four
           handlers of main.ts (loader, submit, break, handleCurrentState with its timer as an independently enabled
           Tick action).  The page protocol is parameterised by facts EXTRACTED from main.ts (tools/extract_page_facts.py),
           so a change to the script changes what is checked.
generate:  MC_Web: every page event sequence up to the tier's length over 7 program texts and 9 submission texts;
           invariants C19NoTrap and NewIsFresh; each transition replayed on the REAL JsInterpreter (built natively)
           through a transliteration of the handlers, side by side with a plain core interpreter (state, ordered
           output records with types and text, error text + source line + caret must be the core's).
validate:  random page sessions on the real adapter, every event judged by TLC (Trace_Web)."""
import json, os, subprocess, time
from . import common as c

ASSUMPTIONS = [
    "main.ts is not executed (no DOM / wasm here): it is bound by extraction of its protocol facts; the adapter lib.rs is bound by execution (natively built rlib)",
    "a Rust panic caught natively stands for a WebAssembly trap",
    "the page's randomize(Date.now()) is replaced by a fixed seed",
]


def page_facts():
    p = subprocess.run(["python3", os.path.join(c.VERIF, "tools", "extract_page_facts.py"), os.path.join(c.REPO, "abasic-web", "ts", "main.ts")],
                       stdout=subprocess.PIPE, stderr=subprocess.PIPE, text=True)
    if p.returncode != 0:
        raise c.ToolError("extract_page_facts failed: " + p.stderr[-500:])
    return json.loads(p.stdout)


def run(pid, tier, seed):
    t0 = time.time()
    q = tier == "quick"
    wd = c.workdir(pid)
    c.build_harness()
    facts = page_facts()
    fbits = "".join("1" if facts[k] else "0" for k in ("loader_checks_error", "loader_skips_blank", "loader_skips_unnumbered"))
    tla = lambda b: "TRUE" if b else "FALSE"
    consts = (f"CONSTANT LoaderChecksError = {tla(facts['loader_checks_error'])}\nCONSTANT LoaderSkipsBlank = {tla(facts['loader_skips_blank'])}\n"
              f"CONSTANT LoaderSkipsUnnumbered = {tla(facts['loader_skips_unnumbered'])}\n")
    cfg = (f"INIT Init\nNEXT Next\nCONSTANT MaxEvents = {5 if q else 7}\nCONSTANT EmitRows = TRUE\n{consts}VIEW PageView\n"
           "INVARIANT NewIsFresh\nCHECK_DEADLOCK FALSE\n")
    # NoTrap is checked by replay on the real adapter AND on the model; a model-level trap under the extracted
    # protocol is reported as a violation of C19 (the page script + adapter design admits a trap), with its event sequence.
    out = os.path.join(wd, "mc_web.out")
    st = c.run_tlc("MC_Web", cfg, out, os.path.join(wd, "md"), workers=10, timeout=5400)
    c.require_tlc_ok(st, "MC_Web")
    rp = os.path.join(wd, "web_replay.json")
    c.run_vh(["web-replay", out, fbits, rp])
    rep = json.load(open(rp))
    os.remove(out)
    violations = list(rep["violations"])
    n = 300 if q else 20000
    shards = 4 if q else 16
    cmds, reports = [], []
    # Trace_Web.cfg carries the constants: write a per-run copy
    tcfg = os.path.join(c.SPEC, "Trace_Web.cfg")
    want = "SPECIFICATION Spec\n" + consts + "POSTCONDITION Consumed\nCHECK_DEADLOCK FALSE\n"
    if open(tcfg).read() != want:
        raise c.ToolError("spec/Trace_Web.cfg does not match the protocol facts extracted from main.ts: " + json.dumps(facts))
    for k in range(shards):
        tr = os.path.join(wd, f"web_{k}.ndjson")
        rpk = os.path.join(wd, f"web_{k}.report.json")
        cmds.append((["web-record", str(seed * 100 + k), str(n // shards), fbits, tr, rpk], tr))
        reports.append(rpk)
    validated = 0
    for k, (events, vs, _) in enumerate(c.validate_traces("Trace_Web", cmds, wd, "trace_web", timeout=5400)):
        validated += len(events)
        violations += json.load(open(reports[k]))["violations"]
        for v in vs:
            ev = events[v["i"] - 1]
            run_events = [e["e"] for e in events[:v["i"]] if e["run"] == ev["run"]]
            for why in v["why"]:
                if why in ("C19:trap", "C19:unfaithful"):
                    continue      # already reported by the recorder with its event sequence
                cls = "page_design_admits_trap" if why == "MODEL:trap" else "page_event_rejected_by_model"
                violations.append({"property": "C19", "class": cls, "features": {"what": why.split(":", 1)[1]},
                                   "replay": {"events": [f"{e['k']} {bytes(e['text']).decode('utf-8', 'replace')!r}" for e in run_events], "raw_events": run_events, "observed": ev["obs"]}})
    cov = {"states": st["distinct"], "transitions": rep["counters"].get("rows", 0),
           "traces_validated_against_impl": rep["counters"].get("rows", 0) + validated,
           "event_sequences_replayed": rep["counters"].get("rows", 0), "random_page_events_validated_by_tlc": validated,
           "page_script_bound": facts["bound"], "page_protocol_facts": facts,
           "evaluations": rep["counters"].get("rows", 0) + validated, "distinct_nontrivial": rep["counters"].get("rows_nontrivial", 0),
           "rule": f"every page event sequence of <= {5 if q else 7} events over 7 program texts and 9 submission texts; non-trivial = something was shown to the user",
           "model_invariants_checked": ["NewIsFresh", "C19NoTrap (by replay of every transition on the real adapter, and in Trace_Web)"],
           "samples": rep["samples"][:5], "exhaustive": True}
    c.finish(pid, tier, seed, t0, cov, violations, ASSUMPTIONS)
