"""Shared machinery of /verif/check: building the harness, running TLC,
classifying violations against known_findings.jsonl, writing evidence and
replay files, and the exit-code contract (0 held / 1 VIOLATION / 2 tool error)."""
import hashlib, json, os, re, subprocess, sys, time

VERIF = os.path.dirname(os.path.dirname(os.path.abspath(__file__)))
SPEC = os.path.join(VERIF, "spec")
HARNESS = os.path.join(VERIF, "harness")
VH = os.path.join(HARNESS, "target", "debug", "vh")
TLC_SH = os.path.join(VERIF, "tools", "tlc.sh")
# The repository under test.  Always /repo for the registered checks; a background run started with
# `vp run --with-repo` may point VERIF_REPO at its own snapshot so that it is not disturbed by (and
# does not see) experiments in /repo.  Results of such runs are never committed as evidence.
REPO = os.environ.get("VERIF_REPO") or "/repo"


class ToolError(Exception):
    pass


def env():
    e = dict(os.environ)
    e["RUST_BACKTRACE"] = "0"
    e["CARGO_NET_OFFLINE"] = "true"
    e["NO_COLOR"] = "1"
    return e


def workdir(pid):
    d = os.path.join(VERIF, "work", pid)
    os.makedirs(d, exist_ok=True)
    return d


def build_harness():
    """Rebuild the harness against /repo's current working tree (hooks on)."""
    if REPO != "/repo":
        if VERIF == "/verif":
            raise ToolError("VERIF_REPO may only be used from a snapshot of /verif")
        toml = os.path.join(HARNESS, "Cargo.toml")
        text = open(toml).read()
        if '"/repo/' in text:
            open(toml, "w").write(text.replace('"/repo/', f'"{REPO}/'))
    lock = os.path.join(HARNESS, "Cargo.lock")
    if not os.path.exists(lock):
        import shutil
        shutil.copy(os.path.join(REPO, "Cargo.lock"), lock)
    p = subprocess.run(["cargo", "build", "--offline", "--quiet"], cwd=HARNESS, env=env(),
                       stdout=subprocess.PIPE, stderr=subprocess.STDOUT, text=True)
    if p.returncode != 0:
        raise ToolError("harness build failed:\n" + p.stdout[-4000:])


REPO_TARGET = os.path.join(HARNESS, "target", "repo")
ABASIC_BIN = os.path.join(REPO_TARGET, "debug", "abasic")
LSP_BIN = os.path.join(REPO_TARGET, "debug", "abasic-lsp")


def build_repo_binaries():
    """Build the real `abasic` and `abasic-lsp` binaries from /repo's current working tree (own target dir)."""
    p = subprocess.run(["cargo", "build", "--offline", "--quiet", "-p", "abasic-cli", "-p", "abasic-lsp", "--target-dir", REPO_TARGET],
                       cwd=REPO, env=env(), stdout=subprocess.PIPE, stderr=subprocess.STDOUT, text=True)
    if p.returncode != 0:
        raise ToolError("building abasic / abasic-lsp failed:\n" + p.stdout[-4000:])


def run_tlc(module, cfg_text, out_path, metadir, workers=12, timeout=3600, extra=(), java_opts=None):
    """Run TLC on spec/<module>.tla with the given cfg text. Returns the stats dict."""
    cfg_path = os.path.join(os.path.dirname(out_path), os.path.basename(out_path) + ".cfg")
    with open(cfg_path, "w") as f:
        f.write(cfg_text)
    e = env()
    if java_opts:
        e["TLC_JAVA_OPTS"] = java_opts
    t0 = time.time()
    with open(out_path, "w") as out:
        try:
            p = subprocess.run([TLC_SH, str(workers), metadir, cfg_path, os.path.join(SPEC, module + ".tla"), *extra],
                               stdout=out, stderr=subprocess.STDOUT, env=e, timeout=timeout)
        except subprocess.TimeoutExpired:
            raise ToolError(f"TLC timed out after {timeout}s on {module}")
    stats = tlc_stats(out_path)
    stats["wall_s"] = round(time.time() - t0, 2)
    stats["exit"] = p.returncode
    return stats


def tlc_stats(out_path):
    stats = {"generated": 0, "distinct": 0, "completed": False, "invariant_violated": None, "error": None, "depth": 0}
    with open(out_path, errors="replace") as f:
        for line in f:
            if line.startswith("<<"):
                continue
            m = re.match(r"^(\d+) states generated, (\d+) distinct states found", line)
            if m:
                stats["generated"], stats["distinct"] = int(m.group(1)), int(m.group(2))
            elif line.startswith("Model checking completed. No error has been found."):
                stats["completed"] = True
            elif line.startswith("Error: Invariant"):
                stats["invariant_violated"] = line.strip()
            elif line.startswith("Error:") and stats["error"] is None:
                stats["error"] = line.strip()
            m = re.match(r"^The depth of the complete state graph search is (\d+)", line)
            if m:
                stats["depth"] = int(m.group(1))
    return stats


def require_tlc_ok(stats, what):
    if stats.get("invariant_violated"):
        raise ToolError(f"{what}: the MODEL violates its own property ({stats['invariant_violated']}); "
                        "this is a specification inconsistency, not a finding about the code")
    if stats.get("error") or not stats.get("completed"):
        raise ToolError(f"{what}: TLC did not complete ({stats.get('error')})")


def run_vh(args, timeout=3600):
    p = subprocess.run([VH, *args], env=env(), stdout=subprocess.PIPE, stderr=subprocess.PIPE, text=True, timeout=timeout)
    if p.returncode != 0:
        raise ToolError(f"vh {' '.join(args[:2])} failed ({p.returncode}): {p.stderr[-2000:]}")
    return p.stdout


def run_trace_tlc(module, trace, out, metadir, timeout=3000, xmx="3g"):
    """Validate one recorded ndjson trace with spec/<module>.tla (single worker, depth-first queue)."""
    e = env()
    e["TRACE"] = trace
    e["TLC_JAVA_OPTS"] = f"-Xss1g -Xmx{xmx} -Dtlc2.tool.queue.IStateQueue=StateDeque"
    with open(out, "w") as f:
        try:
            subprocess.run([TLC_SH, "1", metadir, os.path.join(SPEC, module + ".cfg"), os.path.join(SPEC, module + ".tla")],
                           stdout=f, stderr=subprocess.STDOUT, env=e, timeout=timeout)
        except subprocess.TimeoutExpired:
            raise ToolError(f"{module} timed out on {trace}")
    return tlc_stats(out)


def parse_verdicts(out):
    """VERDICT rows printed by a trace spec, whether the whole trace was consumed, and the JUDGED count."""
    vs, consumed, judged = [], False, None
    for line in open(out, errors="replace"):
        if line.startswith('<<"VERDICT", "'):
            body = line.strip()[len('<<"VERDICT", "'):-3]
            vs.append(json.loads(body.replace('\\"', '"').replace('\\\\', '\\')))
        elif line.startswith('<<"JUDGED", '):
            judged = int(line.strip()[len('<<"JUDGED", '):].split(",")[0])
        elif line.startswith("Model checking completed. No error has been found."):
            consumed = True
    return vs, consumed, judged


def validate_traces(module, record_cmds, wd, tag, timeout=3000):
    """record_cmds: list of (vh args producing a trace at path, path). Runs recorder + TLC per shard in parallel.
    Returns list of (events, verdicts, judged) per shard."""
    import concurrent.futures as cf

    def one(k):
        args, path = record_cmds[k]
        run_vh(args)
        out = os.path.join(wd, f"{tag}_{k}.out")
        st = run_trace_tlc(module, path, out, os.path.join(wd, f"md_{tag}_{k}"), timeout=timeout)
        vs, consumed, judged = parse_verdicts(out)
        if not consumed:
            raise ToolError(f"{module} did not consume {path}: {st.get('error')} (see {out})")
        events = [json.loads(x) for x in open(path)]
        os.remove(path)
        return events, vs, judged

    with cf.ThreadPoolExecutor(max_workers=min(16, max(1, len(record_cmds)))) as ex:
        return list(ex.map(one, range(len(record_cmds))))


def deep_probes(pid, kinds, depths=(63, 64, 65, 1000, 100000)):
    """Native-stack probes, each in its own child process: a child killed by a signal is a violation
    (the interpreter / analyzer exhausted the native stack), never a harness failure."""
    out, n = [], 0
    for kind in kinds:
        for depth in depths:
            n += 1
            try:
                p = subprocess.run([VH, "deep-one", kind, str(depth)], env=env(), stdout=subprocess.PIPE, stderr=subprocess.PIPE, text=True, timeout=300)
            except subprocess.TimeoutExpired:
                out.append({"property": pid, "class": "deep_nesting_hangs", "features": {"kind": kind}, "replay": {"kind": kind, "depth": depth}})
                continue
            if p.returncode != 0:
                out.append({"property": pid, "class": "native_stack_exhausted", "features": {"kind": kind, "signal": -p.returncode if p.returncode < 0 else p.returncode},
                            "replay": {"kind": kind, "depth": depth, "stderr": p.stderr[-300:]}})
                continue
            r = json.loads(p.stdout.strip().splitlines()[-1])
            if r.get("panicked"):
                out.append({"property": pid, "class": "panic", "features": {"kind": kind}, "replay": r})
            elif kind.startswith("ana-"):
                if r.get("monitors"):
                    out.append({"property": pid, "class": r["monitors"][0], "features": {"kind": kind}, "replay": r})
            else:
                for part in ("immediate", "program"):
                    if r[part]["ok"] is False and r[part]["mode"] != "idle":
                        out.append({"property": pid, "class": "error_without_idle", "features": {"kind": kind}, "replay": r})
                if not r.get("usable_afterwards"):
                    out.append({"property": pid, "class": "unusable_after_error", "features": {"kind": kind}, "replay": r})
    return out, n


# ---------------------------------------------------------------- findings

def load_findings():
    path = os.path.join(VERIF, "known_findings.jsonl")
    out = []
    if os.path.exists(path):
        for line in open(path):
            line = line.strip()
            if line and not line.startswith("#"):
                out.append(json.loads(line))
    return out


def _subset(pattern, value):
    """pattern matches value: dict patterns need every key to match; other values by equality."""
    if isinstance(pattern, dict):
        return isinstance(value, dict) and all(k in value and _subset(v, value[k]) for k, v in pattern.items())
    return pattern == value


def match_finding(v, findings):
    for f in findings:
        if f.get("status") != "known":
            continue            # "fixed" entries suppress nothing
        if f["property"] != v["property"]:
            continue
        m = f.get("match", {})
        if "class" in m and m["class"] != v["class"]:
            continue
        if not _subset(m.get("features", {}), v.get("features", {})):
            continue
        return f
    return None


def finish(pid, tier, seed, t0, coverage, violations, assumptions, level="model_checking"):
    """Classify, write evidence + replays, print the contract lines, exit."""
    findings = load_findings()
    unknown, known = [], {}
    for v in violations:
        if v["property"] != pid:
            continue
        f = match_finding(v, findings)
        if f is not None:
            known.setdefault(f["what"], 0)
            known[f["what"]] += 1
        else:
            unknown.append(v)
    os.makedirs(os.path.join(VERIF, "evidence"), exist_ok=True)
    os.makedirs(os.path.join(VERIF, "replays"), exist_ok=True)
    coverage = dict(coverage)
    coverage["known_finding_hits"] = known
    ev = {
        "property_id": pid, "tier": tier, "seed": seed, "level": level,
        "coverage": coverage, "assumptions": assumptions,
        "wall_s": round(time.time() - t0, 2), "violations": len(unknown),
    }
    with open(os.path.join(VERIF, "evidence", pid + ".json"), "w") as f:
        json.dump(ev, f, indent=1, sort_keys=True)
    for what, n in sorted(known.items()):
        print(f"KNOWN-FINDING: property={pid} {what} ({n} occurrence(s) this run)")
    if unknown:
        seen = set()
        for v in unknown:
            sig = json.dumps([v["class"], v.get("features")], sort_keys=True)
            if sig in seen:
                continue
            seen.add(sig)
            h = hashlib.sha1(json.dumps(v, sort_keys=True).encode()).hexdigest()[:12]
            path = os.path.join(VERIF, "replays", f"{pid}-{h}.json")
            with open(path, "w") as f:
                json.dump({"tier": tier, "seed": seed, **v, "property": pid}, f, indent=1)
            print(f"VIOLATION property={pid} replay={path}")
            print(f"  class={v['class']} features={json.dumps(v.get('features'))}")
            if len(seen) >= 10:
                break
        print(f"{pid}: {len(unknown)} violation(s) in {len(seen)} distinct class(es)")
        sys.exit(1)
    print(f"{pid}: held on everything explored ({tier}); evidence/{pid}.json written")
    sys.exit(0)
