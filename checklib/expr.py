"""C02: expressions evaluate per precedence, associativity and typing.

generate:  TLC enumerates every expression tree of the tier's shapes (MC_Expr) and checks on the
           model that the token-cursor evaluator (structured like the code) agrees with a direct
           fold of the tree, for the minimal and the redundant rendering; each tree is replayed as
           `PRINT <expr>` on the real interpreter.
validate:  random trees of 2..12 operators are printed by the real interpreter and judged by TLC
           (Trace_Expr) against the fold of the tree."""
import concurrent.futures as cf, json, os, time
from . import common as c

TIERS = {
    "quick": {"groups": [["leaf", "un", "bin", "unbin"], ["left"], ["right"], ["spec"]], "trace_events": 600, "shards": 2},
    "thorough": {"groups": [["leaf", "un", "bin", "unbin"], ["left"], ["right"], ["spec"], ["three"]], "trace_events": 24000, "shards": 12},
}

ASSUMPTIONS = [
    "values are compared inside the model's exact number domain (small dyadics, -0, NaN, +-inf with their IEEE / C99 rules); for "
    "expressions whose value leaves it (1/3, large finite powers) only the oracle-free half is checked: both renderings print the same text",
    "f64::powf with an integer exponent returns the exact result when it is representable",
    "outside the exact domain the value of a numeral (Num!F64Value: the nearest double) is evaluated by Rust's str::parse::<f64>, which is correctly rounded",
    "operator semantics on exact values (Arith/Compare/Logic in Abasic.tla) are shared by Fold and the token evaluator; "
    "what is independent is the parsing: Fold has no parser at all",
]


def run(pid, tier, seed):
    t0 = time.time()
    cfg = TIERS[tier]
    wd = c.workdir(pid)
    c.build_harness()

    def group(i):
        shapes = cfg["groups"][i]
        out = os.path.join(wd, f"mc_expr_{i}.out")
        text = ("INIT Init\nNEXT Next\nCONSTANT Shapes = {" + ", ".join(f'"{s}"' for s in shapes) + "}\n"
                "CONSTANT EmitRows = TRUE\nINVARIANT C02\nINVARIANT EmitRow\nCHECK_DEADLOCK FALSE\n")
        st = c.run_tlc("MC_Expr", text, out, os.path.join(wd, f"md{i}"), workers=3, timeout=3000)
        c.require_tlc_ok(st, f"MC_Expr{shapes}")
        rp = os.path.join(wd, f"expr_replay_{i}.json")
        c.run_vh(["expr-replay", out, rp])
        os.remove(out)
        return st, json.load(open(rp))

    with cf.ThreadPoolExecutor(max_workers=5) as ex:
        results = list(ex.map(group, range(len(cfg["groups"]))))
    states = sum(st["distinct"] for st, _ in results)
    violations, counters, samples = [], {}, []
    for st, rep in results:
        violations += rep["violations"]
        samples += rep["samples"][:3]
        for k, v in rep["counters"].items():
            counters[k] = counters.get(k, 0) + v
    if counters.get("rows", 0) != states:
        raise c.ToolError(f"replayed {counters.get('rows')} rows but TLC enumerated {states} trees")

    cmds = []
    n = cfg["trace_events"] // cfg["shards"]
    for k in range(cfg["shards"]):
        tr = os.path.join(wd, f"expr_trace_{k}.ndjson")
        cmds.append((["expr-record", str(seed * 1000 + k), str(n), tr], tr))
    validated = 0
    for events, vs, _ in c.validate_traces("Trace_Expr", cmds, wd, "trace_expr"):
        validated += len(events)
        for v in vs:
            ev = events[v["i"] - 1]
            for why in v["why"]:
                if why.startswith("MODEL:"):
                    raise c.ToolError(f"model inconsistency {why} on {bytes(ev['min'])!r}")
                violations.append({"property": "C02", "class": "trace_event_rejected", "features": {"what": why.split(':', 1)[1]},
                                   "replay": {"expr": bytes(ev["min"]).decode(), "redundant": bytes(ev["red"]).decode(), "event": ev}})

    # the leaves: numerals of every length mean their correctly rounded double
    lp = os.path.join(wd, "literals.json")
    c.run_vh(["expr-literals", str(seed), str(3000 if tier == "quick" else 300000), lp], timeout=3600)
    lrep = json.load(open(lp))
    violations += lrep["violations"]
    literals = lrep["counters"].get("literals", 0)

    coverage = {
        "states": states, "transitions": sum(st["generated"] for st, _ in results),
        "traces_validated_against_impl": counters.get("rows", 0) + validated,
        "exhaustive": True,
        "rule": "every expression tree of shapes " + json.dumps(cfg["groups"]) + " over 13 binary, 3 unary operators, ABS/INT and the leaf "
                "alphabet of ExprProps.tla, each in two renderings; non-trivial = the tree folds to a value (not an error) inside the exact domain",
        "evaluations": 2 * counters.get("rows", 0) + 2 * validated,
        "distinct_nontrivial": counters.get("rows_nontrivial", 0),
        "rows_replayed": counters.get("rows", 0),
        "numerals_checked_against_correct_rounding": literals,
        "rows_with_predicted_value": counters.get("rows_predicted", 0),
        "rows_oracle_free_only": counters.get("rows_inexact_oracle_free_only", 0),
        "random_trees_validated_by_tlc": validated,
        "model_invariants_checked": ["C02 (EvalTokens(Render(t,min)) = Fold(t) = EvalTokens(Render(t,red)))"],
        "samples": samples[:6],
    }
    c.finish(pid, tier, seed, t0, coverage, violations, ASSUMPTIONS)
