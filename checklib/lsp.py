"""C20: the language server survives any document and reports in-bounds positions.

model:     Lsp.tla -- document map, diagnostics = image of the analyzer's messages under the source map with UTF-16
           columns, semantic tokens delta-encoded in the same units.
generate:  MC_Lsp: every sequence of didOpen / didChange / semanticTokens requests up to the tier's length over two
           documents and 8 texts (C05 shapes, non-ASCII strings / comments / DATA before tokens, astral characters);
           invariant C20Holds on every text; each transition replayed against the REAL `abasic-lsp` process over stdio.
           Every reply is also checked against the text alone (bounds in UTF-16 computed from the bytes, ordering,
           legend) and against the in-process analyzer (bag equality of diagnostics).
validate:  random documents through a long-lived real server, every request/reply judged by TLC (Trace_Lsp)."""
import json, os, time
from . import common as c

ASSUMPTIONS = [
    "the server is driven over stdio with JSON-RPC framing; a reply that does not arrive within 10 s or a dead process is a violation (liveness)",
    "diagnostic message texts are not compared; ranges, severities and multiplicities are",
]


def run(pid, tier, seed):
    t0 = time.time()
    q = tier == "quick"
    wd = c.workdir(pid)
    c.build_harness()
    c.build_repo_binaries()
    out = os.path.join(wd, "mc_lsp.out")
    cfg = f"INIT Init\nNEXT Next\nCONSTANT MaxReqs = {3 if q else 4}\nCONSTANT EmitRows = TRUE\nVIEW LspView\nINVARIANT C20\nCHECK_DEADLOCK FALSE\n"
    st = c.run_tlc("MC_Lsp", cfg, out, os.path.join(wd, "md"), workers=10, timeout=5400)
    c.require_tlc_ok(st, "MC_Lsp")
    rp = os.path.join(wd, "lsp_replay.json")
    c.run_vh(["lsp-replay", out, c.LSP_BIN, rp], timeout=7200)
    rep = json.load(open(rp))
    os.remove(out)
    violations = list(rep["violations"])
    n = 400 if q else 20000
    shards = 4 if q else 16
    cmds, reports = [], []
    for k in range(shards):
        tr = os.path.join(wd, f"lsp_{k}.ndjson")
        rpk = os.path.join(wd, f"lsp_{k}.report.json")
        cmds.append((["lsp-record", str(seed * 100 + k), str(n // shards), c.LSP_BIN, tr, rpk], tr))
        reports.append(rpk)
    validated = 0
    for k, (events, vs, _) in enumerate(c.validate_traces("Trace_Lsp", cmds, wd, "trace_lsp", timeout=5400)):
        validated += len(events)
        violations += json.load(open(reports[k]))["violations"]
        for v in vs:
            ev = events[v["i"] - 1]
            for why in v["why"]:
                if why.startswith("MODEL:"):
                    raise c.ToolError(f"model inconsistency {why} on {bytes(ev['text'])!r}")
                violations.append({"property": "C20", "class": "reply_rejected_by_model", "features": {"what": why[4:], "request": ev["k"]},
                                   "replay": {"request": ev["k"], "uri": ev["uri"], "text": ev["text"], "text_text": bytes(ev["text"]).decode("utf-8", "replace"),
                                              "observed": {"diags": ev["diags"], "toks": ev["toks"], "err": ev["err"]}}})
    cov = {"states": st["distinct"], "transitions": rep["counters"].get("rows", 0),
           "traces_validated_against_impl": rep["counters"].get("rows", 0) + validated,
           "request_sequences_replayed": rep["counters"].get("rows", 0), "random_requests_validated_by_tlc": validated,
           "evaluations": rep["counters"].get("rows", 0) + validated, "distinct_nontrivial": rep["counters"].get("rows_nontrivial", 0),
           "rule": f"every request sequence of <= {3 if q else 4} requests over 2 documents x 8 texts; non-trivial = the last reply matched a model reply",
           "model_invariants_checked": ["C20Holds"], "samples": rep["samples"][:5], "exhaustive": True}
    c.finish(pid, tier, seed, t0, cov, violations, ASSUMPTIONS)
