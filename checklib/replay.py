"""./check replay <path>: re-run one replay file against /repo's current working tree.

A replay file carries `rerun`: either {"sub", "row"} -- a harness replay subcommand and the TLC row it failed on --
or {"driver", "seed", "n", "flags", "trace_spec"} -- a seeded recorder whose trace TLC judges.  Exit 1 (with a VIOLATION
line) if the same class of violation is observed again, 0 if not, 2 on tool errors."""
import json, os, sys
from . import common as c


def extra_args(sub, wd):
    if sub == "cli-replay":
        c.build_repo_binaries()
        return [c.ABASIC_BIN, os.path.join(wd, "scratch")]
    if sub == "lsp-replay":
        c.build_repo_binaries()
        return [c.LSP_BIN]
    if sub == "web-replay":
        from . import web
        f = web.page_facts()
        return ["".join("1" if f[k] else "0" for k in ("loader_checks_error", "loader_skips_blank", "loader_skips_unnumbered"))]
    return []


def run(path):
    try:
        v = json.load(open(path))
        pid = v["property"]
        rr = v.get("rerun")
        if not rr:
            print(f"{path}: no rerun information; run ./check {pid} with VERIF_SEED={v.get('seed', 1)} instead")
            return 2
        wd = c.workdir("replay")
        c.build_harness()
        if "sub" in rr:
            rows = os.path.join(wd, "row.out")
            esc = rr["row"].replace("\\", "\\\\").replace('"', '\\"')
            open(rows, "w").write(f'<<"ROW", "{esc}">>\n')
            rp = os.path.join(wd, "report.json")
            c.run_vh([rr["sub"], rows, *extra_args(rr["sub"], wd), rp])
            rep = json.load(open(rp))
            again = [x for x in rep["violations"] if x["class"] == v["class"] or x["property"] == pid]
        else:
            tr = os.path.join(wd, "trace.ndjson")
            rp = os.path.join(wd, "report.json")
            rec = rr["recorder"]
            c.run_vh([*rec, tr, rp] if rr.get("report", True) else [*rec, tr])
            rep = json.load(open(rp)) if os.path.exists(rp) else {"violations": []}
            again = [x for x in rep["violations"] if x["property"] == pid and x["class"] == v["class"]]
            out = os.path.join(wd, "trace.out")
            c.run_trace_tlc(rr["trace_spec"], tr, out, os.path.join(wd, "md"))
            vs, consumed, _ = c.parse_verdicts(out)
            if not consumed:
                raise c.ToolError("trace not consumed")
            if v["class"].startswith("trace_event_rejected") or v["class"].endswith("rejected_by_model"):
                want = set(v["features"].get("fields", [])) or {v["features"].get("what")}
                for x in vs:
                    got = set(x.get("fields", [])) | {w.split(":", 1)[-1] for w in x.get("why", [])}
                    if got & want:
                        again.append(x)
        if again:
            print(f"VIOLATION property={pid} replay={path}")
            print(f"  reproduced: class={v['class']} ({len(again)} occurrence(s))")
            return 1
        print(f"{pid}: the recorded violation does not reproduce on the current tree")
        return 0
    except c.ToolError as e:
        print(f"TOOL-ERROR replay: {e}")
        return 2
