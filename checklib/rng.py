"""C18: RND is a pure, in-range function of the seed.

model:     Rng.tla (LCG on base-2^15 limb naturals).  MC_Rng: from 17 boundary seeds (0, 2^33+-1, 2^43,
           ceil(2^64/1664525)+-1, 2^44, 2^63, 2^64-1, ...) every sequence of positive / zero / negative
           arguments up to the tier's length; invariants InRange and Pure (the k-th state equals an
           independently coded LCG on base-2^11 limbs).  RngInd: Apalache proves the range invariant
           inductive over unbounded integers (every state, every seed).
generate:  every MC_Rng transition is replayed through the hook, through PRINT RND(x) on the core
           interpreter, and on the Web adapter (same seed, same text).
validate:  single RND calls from boundary and random 64-bit seeds, recorded from the real generator,
           are judged by TLC (Trace_Rng)."""
import json, os, subprocess, time
from . import common as c

TIERS = {"quick": {"calls": 5, "events": 10000, "shards": 4}, "thorough": {"calls": 7, "events": 1000000, "shards": 16}}

ASSUMPTIONS = [
    "a natural below 2^53 converts to f64 exactly and division by 2^33 is exact, so state < 2^33 gives a value in [0, 1)",
    "the 2^33 generator states are not swept exhaustively (TLC cannot replay 8.6e9 events): the range claim is proved for the model's "
    "step over all integers by Apalache, and the code is bound to that step on boundaries and random states",
]


def apalache(wd):
    outdir = os.path.join(wd, "apalache")
    spec = os.path.join(c.SPEC, "RngInd.tla")
    res = []
    for args in (["--init=Init", "--inv=IndInv", "--length=0"], ["--init=IndInit", "--inv=IndInv", "--length=1"]):
        try:
            p = subprocess.run(["apalache-mc", "check", *args, f"--out-dir={outdir}", spec], stdout=subprocess.PIPE, stderr=subprocess.STDOUT,
                               text=True, timeout=900, cwd=wd, env=c.env())
        except subprocess.TimeoutExpired:
            raise c.ToolError("apalache timed out on RngInd")
        ok = "EXITCODE: OK" in p.stdout and "no error" in p.stdout
        res.append({"args": args, "ok": ok})
        if not ok:
            raise c.ToolError("Apalache did not discharge RngInd " + " ".join(args) + ":\n" + p.stdout[-1500:])
    import shutil
    shutil.rmtree(outdir, ignore_errors=True)
    return res


def run(pid, tier, seed):
    t0 = time.time()
    cfg = TIERS[tier]
    wd = c.workdir(pid)
    c.build_harness()
    proof = apalache(wd)
    out = os.path.join(wd, "mc_rng.out")
    text = (f"INIT Init\nNEXT Next\nCONSTANT MaxCalls = {cfg['calls']}\nCONSTANT EmitRows = TRUE\nVIEW RngView\n"
            "INVARIANT InRange\nINVARIANT Pure\nINVARIANT Classes\nCHECK_DEADLOCK FALSE\n")
    st = c.run_tlc("MC_Rng", text, out, os.path.join(wd, "md"), workers=6, timeout=1800)
    c.require_tlc_ok(st, "MC_Rng")
    rp = os.path.join(wd, "rng_replay.json")
    c.run_vh(["rng-replay", out, rp])
    rep = json.load(open(rp))
    os.remove(out)
    violations = list(rep["violations"])
    cmds = []
    per = cfg["events"] // cfg["shards"]
    for k in range(cfg["shards"]):
        tr = os.path.join(wd, f"rng_{k}.ndjson")
        cmds.append((["rng-record", str(seed * 1000 + k), str(per), tr], tr))
    validated = 0
    for events, vs, _ in c.validate_traces("Trace_Rng", cmds, wd, "trace_rng"):
        validated += len(events)
        for v in vs:
            ev = events[v["i"] - 1]
            for why in v["why"]:
                if why.startswith("MODEL:"):
                    raise c.ToolError(f"model inconsistency {why}")
                violations.append({"property": "C18", "class": "rnd_call_rejected_by_model", "features": {"what": why.split(":", 1)[1], "sign": ev["sign"]},
                                   "replay": {"seed_before": bytes(ev["before"]).decode(), "sign": ev["sign"], "observed_after": bytes(ev["after"]).decode(),
                                              "observed_numerator": bytes(ev["num"]).decode(), "error": ev["err"]}})
    cov = {
        "states": st["distinct"], "transitions": rep["counters"].get("rows", 0),
        "traces_validated_against_impl": rep["counters"].get("rows", 0) + validated,
        "rows_replayed": rep["counters"].get("rows", 0), "rnd_calls_validated_by_tlc": validated,
        "evaluations": rep["counters"].get("rows", 0) + validated, "distinct_nontrivial": rep["counters"].get("rows_nontrivial", 0),
        "rule": f"MC_Rng: 17 boundary seeds x all sequences of length <= {cfg['calls']} over the arguments 1 / 0 / -1, with at most one of "
                "0.5, -0.5, -0, 2^-20, 10^6, 1.5, NaN, +inf, -inf in any position; Trace_Rng: boundary seeds x 3 signs plus random 64-bit seeds x all 12 arguments",
        "apalache_inductive_invariant": proof,
        "model_invariants_checked": ["InRange", "Pure", "Classes", "RngInd!IndInv (Apalache, unbounded Int)"],
        "samples": rep["samples"][:5], "exhaustive": True,
    }
    c.finish(pid, tier, seed, t0, cov, violations, ASSUMPTIONS)
